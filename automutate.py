#!/venv/bin/python
"""Systematic micro-mutation campaign (sensitivity measurement of the checks, not a property check).

For a seeded sample of single-token mutations (comparison / boolean / arithmetic / index / None-test flips) of the code
the claimed properties are anchored in, apply the mutation to a scratch worktree outside /repo and /verif, run the checks
of the properties that code serves, and report which mutations are reported by at least one check.

  automutate.py [--per-file N] [--seed S] [--files a.py,b.py] [--runs R] [--cap C] [--unit]
"""
import argparse
import json
import os
import py_compile
import random
import re
import shutil
import subprocess
import sys
import time

HERE = os.path.dirname(os.path.abspath(__file__))
sys.path.insert(0, HERE)
import selftest  # noqa: E402

P = "perception_eval/perception_eval/"
TARGETS = {
    "evaluation/result/object_result.py": ["C01", "C02", "C03"],
    "evaluation/matching/objects_filter.py": ["C10", "C03", "C04"],
    "evaluation/metrics/detection/ap.py": ["C04", "C08"],
    "evaluation/metrics/detection/map.py": ["C04"],
    "evaluation/metrics/tracking/clear.py": ["C05"],
    "evaluation/metrics/tracking/tracking_metrics_score.py": ["C05"],
    "evaluation/result/perception_frame_result.py": ["C03", "C13", "C05"],
    "evaluation/result/perception_pass_fail_result.py": ["C03"],
    "manager/perception_evaluation_manager.py": ["C13", "C05"],
    "common/dataset.py": ["C17", "C16"],
    "common/geometry.py": ["C17"],
    "common/dataset_utils.py": ["C16"],
    "common/threshold.py": ["C10", "C03", "C04"],
    "tool/perception_analyzer_base.py": ["C19"],
    "tool/perception_analyzer3d.py": ["C19"],
    "evaluation/matching/object_matching.py": ["C07", "C02", "C03"],
    "common/object.py": ["C07", "C03"],
}
SUBS = [
    (r" < ", " <= "), (r" <= ", " < "), (r" > ", " >= "), (r" >= ", " > "), (r" == ", " != "), (r" != ", " == "),
    (r" and ", " or "), (r" or ", " and "), (r" is None", " is not None"), (r" is not None", " is None"),
    (r" \+ ", " - "), (r" - ", " + "), (r" \* ", " / "), (r"\[0\]", "[1]"), (r"\[-1\]", "[0]"), (r"\[1:\]", "[:]"),
    (r"\bTrue\b", "False"), (r"\bFalse\b", "True"), (r"\bnot ", ""), (r" \+= ", " -= "), (r"\bmin\(", "max("), (r"\bmax\(", "min("),
    (r"\.append\(", ".insert(0, "), (r"reverse=True", "reverse=False"), (r"\bcontinue\b", "break"), (r"\bbreak\b", "continue"),
]


def candidate_mutations(src):
    out = []
    in_doc = False
    for ln, line in enumerate(src.splitlines()):
        st = line.strip()
        if st.count('"""') % 2 == 1:
            in_doc = not in_doc
            continue
        if in_doc or not st or st.startswith("#") or st.startswith(("import ", "from ", "def ", "class ", "@", "raise ", "assert ", "logging.", "logger.", "warnings.")):
            continue
        if '"""' in st or "f\"" in st or "f'" in st:
            continue
        code = line.split("#")[0]
        for pat, rep in SUBS:
            m = re.search(pat, code)
            if m:
                new = code[: m.start()] + re.sub(pat, rep, code[m.start():], count=1) + line[len(code):]
                if new != line:
                    out.append((ln, pat, rep, line, new))
    return out


def main():
    ap = argparse.ArgumentParser()
    ap.add_argument("--per-file", type=int, default=12)
    ap.add_argument("--seed", type=int, default=7)
    ap.add_argument("--files")
    ap.add_argument("--runs", type=int, default=1500)
    ap.add_argument("--cap", type=float, default=25.0)
    ap.add_argument("--unit", action="store_true", help="run the unit suite on mutants no check reports")
    ap.add_argument("--out", default=os.path.join(HERE, "automutate_report.json"))
    args = ap.parse_args()
    rng = random.Random(args.seed)
    files = args.files.split(",") if args.files else sorted(TARGETS)
    report = []
    t0 = time.time()
    for rel in files:
        props = TARGETS[rel]
        src = open(os.path.join("/repo", P, rel)).read()
        cands = candidate_mutations(src)
        rng.shuffle(cands)
        picked = 0
        for ln, pat, rep, old, new in cands:
            if picked >= args.per_file:
                break
            d = selftest.make_scratch_repo("auto")
            try:
                path = os.path.join(d, P, rel)
                lines = open(path).read().splitlines(keepends=True)
                lines[ln] = new + ("\n" if lines[ln].endswith("\n") else "")
                open(path, "w").write("".join(lines))
                try:
                    py_compile.compile(path, doraise=True)
                except Exception:  # noqa
                    continue
                picked += 1
                row = {"file": rel, "line": ln + 1, "old": old.strip(), "new": new.strip(), "checks": {}}
                caught = False
                for prop in props:
                    envv = dict(os.environ)
                    envv.pop("WORLDSIM_REEXEC", None)
                    envv["VERIF_REPO"] = d
                    cmd = [sys.executable, os.path.join(HERE, "check.py"), "--property", prop, "--tier", "quick", "--no-evidence", "--no-minimise",
                           "--runs", str(args.runs), "--cap", str(args.cap)]
                    out = subprocess.run(cmd, env=envv, capture_output=True, text=True, timeout=3600)
                    row["checks"][prop] = out.returncode
                    if out.returncode == 1:
                        caught = True
                        v = [l for l in out.stdout.splitlines() if l.startswith("violation:")]
                        row["first_report"] = (prop + " " + v[0][:160]) if v else prop
                        break
                row["caught"] = caught
                if not caught and args.unit:
                    envv = dict(os.environ)
                    envv["PYTHONPATH"] = os.path.join(d, "perception_eval")
                    envv["MPLBACKEND"] = "Agg"
                    ut = subprocess.run([sys.executable, "-m", "pytest", "-q", "-x", "-p", "no:cacheprovider", "perception_eval/test"], cwd=d, env=envv,
                                        capture_output=True, text=True, timeout=3600)
                    row["unit_suite_passes"] = ut.returncode == 0
                report.append(row)
                print("%-55s L%-4d %-34s -> %-34s %s" % (rel, ln + 1, old.strip()[:34], new.strip()[:34],
                                                          "REPORTED " + row.get("first_report", "")[:70] if caught else "survived %s %s" % (row["checks"], row.get("unit_suite_passes", ""))), flush=True)
            finally:
                selftest.drop_scratch_repo(d)
    n = len(report)
    c = sum(1 for r in report if r["caught"])
    print("automutate: %d mutants, %d reported by a check, %d survived; %.0fs" % (n, c, n - c, time.time() - t0))
    json.dump({"seed": args.seed, "per_file": args.per_file, "mutants": report}, open(args.out, "w"), indent=1)
    return 0


if __name__ == "__main__":
    sys.exit(main())
