#!/venv/bin/python
"""Systematic micro-mutation campaign (sensitivity measurement of the checks, not a property check).

Phase A: a seeded sample of single-token mutations (comparison / boolean / arithmetic / index / None-test flips) of the
code the claimed properties are anchored in; each is applied to a scratch worktree outside /repo and /verif and the
repository's own unit suite is run on it.  Only mutants that still compile *and pass the unit suite* go on: those are the
"realistic changes" the brief talks about.

Phase B: the checks of the properties that file serves are run against each such mutant (VERIF_REPO=<scratch>); the first
check that exits 1 with a violation ends the mutant.  The report lists, per mutant, the verdict:
  reported      some check printed a violation (exit 1)
  harness       no check reported and at least one could not run (exit 2): the mutant breaks an interface the harness reads
  survived      every check exited 0

  automutate.py [--per-file N] [--seed S] [--files a.py,b.py] [--runs R] [--cap C] [--jobs J] [--from-report f.json]
"""
import argparse
import concurrent.futures as cf
import json
import os
import py_compile
import random
import re
import subprocess
import sys
import time

HERE = os.path.dirname(os.path.abspath(__file__))
sys.path.insert(0, HERE)
import selftest  # noqa: E402

P = "perception_eval/perception_eval/"
# file -> checks to try, most likely first
TARGETS = {
    "evaluation/result/object_result.py": ["C01", "C02", "C03", "C04", "C05"],
    "evaluation/matching/objects_filter.py": ["C10", "C03", "C04", "C13", "C05", "C19"],
    "evaluation/matching/object_matching.py": ["C07", "C02", "C01", "C03", "C19"],
    "evaluation/metrics/detection/ap.py": ["C04", "C08", "C13"],
    "evaluation/metrics/detection/map.py": ["C04", "C13"],
    "evaluation/metrics/detection/tp_metrics.py": ["C04", "C07"],
    "evaluation/metrics/tracking/clear.py": ["C05", "C13"],
    "evaluation/metrics/tracking/tracking_metrics_score.py": ["C05", "C13"],
    "evaluation/metrics/metrics.py": ["C13", "C04", "C05"],
    "evaluation/result/perception_frame_result.py": ["C03", "C13", "C10", "C19", "C05", "C07"],
    "evaluation/result/perception_pass_fail_result.py": ["C03", "C08", "C07"],
    "manager/perception_evaluation_manager.py": ["C13", "C10", "C05", "C03", "C07"],
    "manager/_evaluation_manager_base.py": ["C17", "C13"],
    "common/dataset.py": ["C17", "C16", "C10"],
    "common/geometry.py": ["C17", "C10"],
    "common/dataset_utils.py": ["C16"],
    "common/threshold.py": ["C10", "C03", "C04", "C08"],
    "common/transform.py": ["C07", "C10", "C16", "C17"],
    "common/object.py": ["C07", "C19", "C16", "C10", "C03"],
    "common/label.py": ["C16", "C10", "C01"],
    "tool/perception_analyzer_base.py": ["C19"],
    "tool/perception_analyzer3d.py": ["C19"],
    "tool/utils.py": ["C19"],
}
SUBS = [
    (r" < ", " <= "), (r" <= ", " < "), (r" > ", " >= "), (r" >= ", " > "), (r" == ", " != "), (r" != ", " == "),
    (r" and ", " or "), (r" or ", " and "), (r" is None", " is not None"), (r" is not None", " is None"),
    (r" \+ ", " - "), (r" - ", " + "), (r" \* ", " / "), (r"\[0\]", "[1]"), (r"\[-1\]", "[0]"), (r"\[1:\]", "[:]"),
    (r"\bTrue\b", "False"), (r"\bFalse\b", "True"), (r"\bnot ", ""), (r" \+= ", " -= "), (r"\bmin\(", "max("), (r"\bmax\(", "min("),
    (r"\.append\(", ".insert(0, "), (r"reverse=True", "reverse=False"), (r"\bcontinue\b", "break"), (r"\bbreak\b", "continue"),
    (r" in ", " not in "), (r" not in ", " in "), (r"\babs\(", "("), (r" \+ 1\b", " + 0"), (r" - 1\b", " - 0"),
]


def candidate_mutations(src):
    out = []
    in_doc = False
    for ln, line in enumerate(src.splitlines()):
        st = line.strip()
        if st.count('"""') % 2 == 1:
            in_doc = not in_doc
            continue
        if in_doc or not st or st.startswith("#") or st.startswith(("import ", "from ", "def ", "class ", "@", "raise ", "assert ", "logging.", "logger.", "warnings.", "for ")):
            continue
        if '"""' in st or "f\"" in st or "f'" in st or st.startswith(("str_ ", "target_str ")):
            continue
        code = line.split("#")[0]
        for pat, rep in SUBS:
            m = re.search(pat, code)
            if m:
                new = code[: m.start()] + re.sub(pat, rep, code[m.start():], count=1) + line[len(code):]
                if new != line:
                    out.append((ln, pat, rep, line, new))
    return out


def apply_mutation(d, rel, ln, new):
    path = os.path.join(d, P, rel)
    lines = open(path).read().splitlines(keepends=True)
    lines[ln] = new + ("\n" if lines[ln].endswith("\n") else "")
    open(path, "w").write("".join(lines))
    try:
        py_compile.compile(path, doraise=True)
    except Exception:  # noqa
        return False
    return True


def unit_phase(job):
    k, rel, ln, old, new = job
    d = selftest.make_scratch_repo("autoA%d" % k)
    try:
        if not apply_mutation(d, rel, ln, new):
            return k, "nocompile"
        envv = dict(os.environ)
        envv["MPLBACKEND"] = "Agg"
        envv.pop("PYTHONPATH", None)
        # the suite imports the installed package: point the import path at the scratch tree
        envv["PYTHONPATH"] = os.path.join(d, "perception_eval")
        ut = subprocess.run([sys.executable, "-m", "pytest", "-q", "-x", "-p", "no:cacheprovider", "perception_eval/test"], cwd=d, env=envv,
                            capture_output=True, text=True, timeout=3600)
        return k, "pass" if ut.returncode == 0 else "fail"
    finally:
        selftest.drop_scratch_repo(d)


def main():
    ap = argparse.ArgumentParser()
    ap.add_argument("--per-file", type=int, default=12)
    ap.add_argument("--seed", type=int, default=7)
    ap.add_argument("--files")
    ap.add_argument("--runs", type=int, default=1500)
    ap.add_argument("--cap", type=float, default=25.0)
    ap.add_argument("--jobs", type=int, default=8)
    ap.add_argument("--out", default=os.path.join(HERE, "automutate_report.json"))
    args = ap.parse_args()
    rng = random.Random(args.seed)
    files = args.files.split(",") if args.files else sorted(TARGETS)
    t0 = time.time()
    jobs = []
    for rel in files:
        src = open(os.path.join("/repo", P, rel)).read()
        cands = candidate_mutations(src)
        rng.shuffle(cands)
        seen_lines = set()
        picked = 0
        for ln, pat, rep, old, new in cands:
            if picked >= args.per_file:
                break
            if ln in seen_lines:
                continue
            seen_lines.add(ln)
            jobs.append((len(jobs), rel, ln, old, new))
            picked += 1
    print("phase A: unit suite on %d mutants (%d at a time)" % (len(jobs), args.jobs), flush=True)
    unit = {}
    with cf.ThreadPoolExecutor(args.jobs) as ex:
        for k, verdict in ex.map(unit_phase, jobs):
            unit[k] = verdict
            print("  A %-52s L%-4d %s" % (jobs[k][1], jobs[k][2] + 1, verdict), flush=True)
    report = []
    for k, rel, ln, old, new in jobs:
        row = {"file": rel, "line": ln + 1, "old": old.strip(), "new": new.strip(), "unit_suite": unit[k], "checks": {}}
        report.append(row)
        if unit[k] != "pass":
            row["verdict"] = "killed_by_unit_suite" if unit[k] == "fail" else "does_not_compile"
            continue
        d = selftest.make_scratch_repo("autoB")
        try:
            apply_mutation(d, rel, ln, new)
            verdict = "survived"
            for prop in TARGETS[rel]:
                envv = dict(os.environ)
                envv.pop("WORLDSIM_REEXEC", None)
                envv["VERIF_REPO"] = d
                cmd = [sys.executable, os.path.join(HERE, "check.py"), "--property", prop, "--tier", "quick", "--no-evidence", "--no-minimise",
                       "--runs", str(args.runs), "--cap", str(args.cap)]
                out = subprocess.run(cmd, env=envv, capture_output=True, text=True, timeout=3600)
                row["checks"][prop] = out.returncode
                if out.returncode == 1:
                    verdict = "reported"
                    v = [l for l in out.stdout.splitlines() if l.startswith("violation:")]
                    row["first_report"] = (prop + " " + v[0][:160]) if v else prop
                    break
                if out.returncode != 0:
                    verdict = "harness"
            row["verdict"] = verdict
            print("B %-52s L%-4d %-34s -> %-34s %s %s" % (rel, ln + 1, old.strip()[:34], new.strip()[:34], verdict.upper(),
                                                         row.get("first_report", row["checks"])), flush=True)
        finally:
            selftest.drop_scratch_repo(d)
        json.dump({"seed": args.seed, "per_file": args.per_file, "mutants": report}, open(args.out, "w"), indent=1)
    tally = {}
    for r in report:
        tally[r["verdict"]] = tally.get(r["verdict"], 0) + 1
    print("automutate: %d mutants: %s; %.0fs" % (len(report), tally, time.time() - t0))
    json.dump({"seed": args.seed, "per_file": args.per_file, "tally": tally, "mutants": report}, open(args.out, "w"), indent=1)
    return 0


if __name__ == "__main__":
    sys.exit(main())
