#!/venv/bin/python
"""Entry point of every check:  check.py --property Cxx --tier quick|thorough [--replay FILE]

exit 0: the property held on everything explored (open known findings are printed as KNOWN-FINDING lines)
exit 1: "VIOLATION property=<id> replay=<path>" was printed
exit 2: harness failure (never a verdict)
"""
import argparse
import json
import os
import sys
import time

HERE = os.path.dirname(os.path.abspath(__file__))
sys.path.insert(0, HERE)

from worldsim import env  # noqa: E402

env.ensure_env()

import concurrent.futures as cf  # noqa: E402
import faulthandler  # noqa: E402
import hashlib  # noqa: E402
import multiprocessing  # noqa: E402
import subprocess  # noqa: E402

TIERS = {
    # runs, wall-clock cap [s] for the batch, determinism sample
    # sweep: (base scenarios, positions per fault kind, share of the cap)
    "quick": {"runs": 3000, "cap": 40.0, "det": 8, "sweep": (3, 4, 0.25)},
    "thorough": {"runs": 400000, "cap": 900.0, "det": 32, "sweep": (60, 12, 0.35)},
}
PER_RUN_TIMEOUT = 120


def _worker_init():
    from worldsim import env as _env

    _env.repo()


def _worker(task):
    seed, run, profile, prop, want_plan = task[:5]
    clean, force = (task[5], task[6]) if len(task) > 5 else (None, None)
    faulthandler.dump_traceback_later(PER_RUN_TIMEOUT, exit=True)
    try:
        from worldsim import cases, plan as P

        pl = P.make_plan(seed, run, profile, clean=clean, force=force)
        res = cases.run_case(pl, prop)
        res["force"] = force
        res["clean_arg"] = clean
        if want_plan:
            res["plan_summary"] = cases.plan_summary(pl)
        return res
    finally:
        faulthandler.cancel_dump_traceback_later()


def big_every_for(tier):
    return 4 if tier == "thorough" else 25


def profile_for(profile, run, big_every):
    """Every big_every-th run uses the profile's deep-bounds variant (long scenes, crowded frames, long histories)."""
    return profile + (":big" if big_every and run % big_every == big_every - 1 else "")


def load_findings():
    with open(os.path.join(HERE, "known_findings.json")) as f:
        return json.load(f)


def match_finding(v, findings):
    for f in findings["open"]:
        if f["property"] == v["property"] and f["clause"] == v["clause"]:
            if all(v.get("detail", {}).get(k) == val for k, val in f.get("when", {}).items()):
                return f
    return None


def write_evidence(prop, payload):
    d = os.path.join(HERE, "evidence")
    os.makedirs(d, exist_ok=True)
    path = os.path.join(d, prop + ".json")
    tmp = path + ".tmp"
    with open(tmp, "w") as f:
        json.dump(payload, f, indent=1, sort_keys=True)
    os.replace(tmp, path)
    return path


REAL_STUB = {
    "real": [
        "nuscenes-devkit NuScenes/PredictHelper (and NuImages for camera worlds) reading the generated annotation/*.json files",
        "perception_eval loader (common/dataset*.py), lookup and interpolation",
        "PerceptionEvaluationConfig / PerceptionEvaluationManager / filters / matching / metrics (AP, APH, mAP, CLEAR) / pass-fail",
        "pickle round trip of frame results; PerceptionAnalyzer3D and get_object_status (C19 only)",
    ],
    "stub": [
        "world model (actors, ego trajectory, sample clock)",
        "storage writer (produces real files)",
        "perception/tracker peer with injected content and identity faults",
        "message clock (offset, drift, jitter, jumps, edge stamps)",
        "transport (discrete-event queue: delay, drop, duplicate, reorder)",
        "driver (callback loop, per-delivery configs, scene queries, restart, analyze)",
        "PerceptionVisualizer3D replaced by a no-op as seen from the manager module (one matplotlib figure per manager otherwise)",
    ],
}


def determinism_probe(prop, profile, seed, runs, hashseed, tier):
    """Digests of the first `runs` runs from a fresh interpreter under another PYTHONHASHSEED."""
    envv = dict(os.environ)
    envv.pop("WORLDSIM_REEXEC", None)
    envv["VERIF_HASHSEED"] = str(hashseed)
    envv["PYTHONHASHSEED"] = str(hashseed)
    cmd = [sys.executable, os.path.join(HERE, "check.py"), "--digests", "--property", prop, "--profile", profile,
           "--seed", str(seed), "--runs", str(runs), "--tier", tier]
    out = subprocess.run(cmd, env=envv, capture_output=True, text=True, timeout=600)
    if out.returncode != 0:
        raise RuntimeError("determinism probe failed: %s" % out.stderr[-2000:])
    return json.loads(out.stdout.strip().splitlines()[-1])


def do_digests(args):
    from worldsim import cases, plan as P

    env.repo()
    out = []
    for run in range(args.runs):
        pl = P.make_plan(args.seed, run, profile_for(args.profile, run, big_every_for(args.tier)))
        res = cases.run_case(pl, args.property)
        if "harness_error" in res:
            sys.stderr.write(res["harness_error"])
            return 2
        out.append(res["digest"])
    print(json.dumps(out))
    return 0


def do_replay(args):
    from worldsim import cases

    env.repo()
    with open(args.replay) as f:
        rep = json.load(f)
    plan = rep["plan"]
    prop = args.property or rep["property"]
    res = cases.run_case(plan, prop)
    if "harness_error" in res:
        sys.stderr.write(res["harness_error"])
        return 2
    want = tuple(rep["signature_class"]) if rep.get("signature_class") else None
    hits = [v for v in res["violations"] if want is None or cases.signature_class(v) == want]
    findings = load_findings()
    hits_new = [v for v in hits if match_finding(v, findings) is None]
    for v in hits:
        print("replayed: property=%s clause=%s %s" % (v["property"], v["clause"], v["signature"]))
    print("digest=%s recorded=%s" % (res["digest"], rep.get("digest")))
    if hits_new:
        print("VIOLATION property=%s replay=%s" % (prop, os.path.abspath(args.replay)))
        return 1
    for v in hits:
        f = match_finding(v, findings)
        print("KNOWN-FINDING: property=%s %s" % (prop, f["what"]))
    return 0


def sweep_tasks(prop, profile, seed, n_bases, per_kind_cap):
    """Systematic single-fault sweep: for fault-free base scenarios of the profile, every fault kind at every
    opportunity (position) the planner offers, one fault per run."""
    from worldsim import plan as P

    tasks = []
    for b in range(n_bases):
        run = 1_000_000 + b
        base = P.make_plan(seed, run, profile, clean=True)
        opp = dict(base["opportunities"])
        opp.setdefault("skew_offset", 1)
        opp.setdefault("drift", 1)
        tasks.append((seed, run, profile, prop, b == 0, True, None))
        for kind in sorted(opp):
            n = opp[kind]
            idxs = list(range(n)) if n <= per_kind_cap else sorted(set(int(i * (n - 1) / (per_kind_cap - 1)) for i in range(per_kind_cap)))
            for i in idxs:
                tasks.append((seed, run, profile, prop, False, True, [(kind, i)]))
    return tasks


def run_batch(prop, profile, seed, n_runs, cap, workers, sample_every, findings, tasks=None, big_every=0):
    """Run the batch on a fork pool; returns (results, wall, capped)."""
    ctx = multiprocessing.get_context("fork")
    env.repo()  # import once, fork afterwards
    t0 = time.time()
    results = []
    capped = False
    if tasks is not None:
        n_runs = len(tasks)
    with cf.ProcessPoolExecutor(max_workers=workers, mp_context=ctx, initializer=_worker_init) as ex:
        pending = set()
        nxt = 0
        stop = False
        while (nxt < n_runs and not stop) or pending:
            while nxt < n_runs and len(pending) < workers * 3 and not stop:
                task = tasks[nxt] if tasks is not None else (seed, nxt, profile_for(profile, nxt, big_every), prop, nxt % sample_every == 0)
                pending.add(ex.submit(_worker, task))
                nxt += 1
            done, pending = cf.wait(pending, timeout=5.0, return_when=cf.FIRST_COMPLETED)
            for fu in done:
                results.append(fu.result())
            if time.time() - t0 > cap and not stop:
                stop = True
                capped = nxt < n_runs
            if not stop and done and any(
                match_finding(v, findings) is None for r in results[-len(done):] for v in r.get("violations", [])
            ):
                # do not start new work once a violation that is not a listed finding is known
                stop = True
    return results, time.time() - t0, capped


def main():
    ap = argparse.ArgumentParser()
    ap.add_argument("--property")
    ap.add_argument("--tier", default=os.environ.get("VERIF_TIER", "quick"))
    ap.add_argument("--seed", type=int, default=int(os.environ.get("VERIF_SEED", "20260927")))
    ap.add_argument("--runs", type=int)
    ap.add_argument("--cap", type=float)
    ap.add_argument("--workers", type=int, default=int(os.environ.get("VERIF_WORKERS", "16")))
    ap.add_argument("--profile")
    ap.add_argument("--replay")
    ap.add_argument("--digests", action="store_true")
    ap.add_argument("--selftest-import", action="store_true")
    ap.add_argument("--no-minimise", action="store_true")
    ap.add_argument("--no-evidence", action="store_true")
    ap.add_argument("--also-clean", action="store_true", default=True)
    args = ap.parse_args()

    if args.selftest_import:
        R = env.repo()
        print("perception_eval imported from", R["src"])
        return 0
    from worldsim import cases, ddmin, plan as P

    if args.replay:
        return do_replay(args)
    if not args.property or args.property not in cases.CLAIMED + ["ALL"]:
        sys.stderr.write("--property must be one of %s\n" % cases.CLAIMED)
        return 2
    prop = args.property
    args.profile = args.profile or cases.PROFILE_OF.get(prop, "generic")
    if args.digests:
        return do_digests(args)

    tier = TIERS[args.tier]
    n_runs = args.runs or tier["runs"]
    cap = args.cap or tier["cap"]
    print("check property=%s tier=%s VERIF_SEED=%d profile=%s runs<=%d cap=%.0fs workers=%d repo=%s" %
          (prop, args.tier, args.seed, args.profile, n_runs, cap, args.workers, env.repo_root()), flush=True)
    t_start = time.time()

    # main batch (fault-injecting swarm), then a separate fault-free batch so that relaxations hide nothing
    findings = load_findings()
    results, wall, capped = run_batch(prop, args.profile, args.seed, n_runs, cap, args.workers, 40, findings,
                                      big_every=big_every_for(args.tier))
    clean_results, clean_wall, _ = run_batch(prop, "clean", args.seed, max(16, n_runs // 8), max(10.0, cap / 6), args.workers, 40, findings)
    sw = TIERS[args.tier]["sweep"]
    sweep_results, sweep_wall, sweep_capped = run_batch(prop, args.profile, args.seed, 0, max(8.0, cap * sw[2]), args.workers, 40, findings,
                                                        tasks=sweep_tasks(prop, args.profile, args.seed, sw[0], sw[1]))
    all_results = results + clean_results + sweep_results

    harness = [r for r in all_results if "harness_error" in r]
    if harness:
        # runs the harness itself could not judge are never a verdict; they only stop the check when nothing else was found
        results = [r for r in results if "harness_error" not in r]
        clean_results = [r for r in clean_results if "harness_error" not in r]
        sweep_results = [r for r in sweep_results if "harness_error" not in r]
        all_results = results + clean_results + sweep_results

    known_hits, new_hits = {}, []
    for r in all_results:
        for v in r["violations"]:
            f = match_finding(v, findings)
            if f is None:
                new_hits.append((r, v))
            else:
                known_hits.setdefault(f["id"], [f, 0])[1] += 1
    if harness:
        sys.stderr.write("HARNESS ERROR in %d run(s), first (seed=%s run=%s profile=%s):\n%s\n" % (
            len(harness), harness[0]["seed"], harness[0]["run"], harness[0]["profile"], harness[0]["harness_error"]))
        if not new_hits:
            return 2

    # determinism self-test sample: same seeds in a fresh interpreter under another hash seed
    det_n = tier["det"]
    det_ok = None
    if not new_hits:
        mine = {r["run"]: r["digest"] for r in results if r["run"] < det_n and "digest" in r}
        other = determinism_probe(prop, args.profile, args.seed, det_n, 4242, args.tier)
        det_ok = all(mine.get(i) == d for i, d in enumerate(other) if i in mine)
        if not det_ok:
            sys.stderr.write("DETERMINISM FAILURE: digests differ between this run and a fresh interpreter (PYTHONHASHSEED=4242)\n")
            return 2

    # ---- evidence -------------------------------------------------------------------------------------
    probes, skips, fired = {}, {}, {}
    traces, states = set(), set()
    nontrivial = set()
    for r in all_results:
        for k, v in r.get("probes", {}).items():
            probes[k] = probes.get(k, 0) + v
        for k, v in r.get("skips", {}).items():
            skips[k] = skips.get(k, 0) + v
        for k, v in r.get("fired", {}).items():
            fired[k] = fired.get(k, 0) + v
        traces.add(r.get("trace"))
        states.update(r.get("state_keys", []))
        if r.get("nontrivial"):
            nontrivial.add(r.get("digest"))
    total_wall = time.time() - t_start
    sim_seconds = sum(r.get("sim_seconds", 0) for r in all_results)
    samples = [r["plan_summary"] for r in all_results if "plan_summary" in r][:6]
    evidence = {
        "property_id": prop,
        "tier": args.tier,
        "seed": args.seed,
        "level": "exploration",
        "wall_s": round(total_wall, 2),
        "violations": len(new_hits),
        "coverage": {
            "evaluations": len(all_results),
            "distinct_nontrivial": len(nontrivial),
            "rule": "one evaluation = one simulated run (seeded plan: world -> T4 files -> faulty perception/clock/transport -> real evaluator), "
                    "drawn as VERIF_SEED x run index x profile; non-trivial = at least one delivery reached the evaluator with >=1 ground truth and >=1 estimate; "
                    "distinct = distinct SHA-256 of the run's full event log (lookups, per-step pairs/TP/FP/FN/TN/scores/metrics, scene scores)",
            "samples": samples,
            "simulated_runs": len(all_results),
            "fault_injecting_runs": len(results),
            "fault_free_runs": len(clean_results),
            "single_fault_sweep": {
                "runs": len(sweep_results),
                "base_scenarios": len(set(r["run"] for r in sweep_results)),
                "fault_kinds_forced": sorted(set(r["force"][0][0] for r in sweep_results if r.get("force"))),
                "forced_faults_that_fired": sum(1 for r in sweep_results if r.get("force") and r.get("fired", {}).get(r["force"][0][0])),
                "capped_by_wall_clock": sweep_capped,
            },
            "runs_per_hour": round(len(all_results) / max(1e-9, wall + clean_wall + sweep_wall) * 3600),
            "seeds": {"VERIF_SEED": args.seed, "run_indices": [0, max(r["run"] for r in results) if results else 0]},
            "simulated_seconds": round(sim_seconds, 1),
            "evaluator_steps": sum(r.get("n_evaluated", 0) for r in all_results),
            "driver_operations": sum(r.get("n_ops", 0) for r in all_results),
            "faults_fired": dict(sorted(fired.items())),
            "probes": dict(sorted(probes.items())),
            "skipped_decisions": dict(sorted(skips.items())),
            "distinct_delivery_traces": len(traces),
            "distinct_abstract_states": len(states),
            "capped_by_wall_clock": capped,
            "determinism_sample": {"runs": det_n, "fresh_interpreter_hashseed": 4242, "equal": det_ok},
            "components": REAL_STUB,
            "known_findings_seen": {k: v[1] for k, v in known_hits.items()},
            "violations_of_other_properties_ignored_here": sum(r.get("other_violations", 0) for r in all_results),
        },
        "assumptions": [
            "sampling, not proof: a clean batch is evidence only",
            "geometry scores of boxes in space (IoU, plane distance) are read from the implementation (C06/C09 not claimed); centre distance, ROI scores and the heading agreement of flat boxes are recomputed",
            "decisions within 1e-6 (relative) of a threshold are skipped and counted in skipped_decisions",
            "3D tasks (detection, tracking, fp_validation) and camera worlds (detection2d / tracking2d on image ROIs, probe camera_world_runs); classification / traffic-light paths are not simulated",
            "no intra-call interleavings, disk faults or allocation failures: the library is single-threaded and the properties do not quantify over them",
        ],
    }
    if not args.no_evidence:
        write_evidence(prop, evidence)

    for f in findings["open"]:
        if f["property"] != prop:
            continue
        n = known_hits.get(f["id"], (f, 0))[1]
        print("KNOWN-FINDING: property=%s %s [%s, %s]" % (prop, f["what"], f["id"],
                                                         "seen %d times in this run" % n if n else "listed; not exercised by this run"))

    print("runs=%d (faulty %d, fault-free %d, sweep %d) nontrivial=%d steps=%d wall=%.1fs runs/h=%d traces=%d" % (
        len(all_results), len(results), len(clean_results), len(sweep_results), len(nontrivial), evidence["coverage"]["evaluator_steps"],
        total_wall, evidence["coverage"]["runs_per_hour"], len(traces)), flush=True)

    if not new_hits:
        print("OK property=%s held on everything explored" % prop)
        return 0

    # ---- report the first violation with a minimised replay file -------------------------------------
    new_hits.sort(key=lambda rv: (rv[0]["profile"] != "clean", rv[0]["run"]))
    r, v = new_hits[0]

    def regen():
        return P.make_plan(r["seed"], r["run"], r["profile"], clean=r.get("clean_arg"), force=r.get("force"))

    plan = regen()
    used = 0
    if not args.no_minimise:
        try:
            plan, used = ddmin.minimise(plan, prop, v)
        except Exception as e:  # noqa
            sys.stderr.write("minimisation failed (%s); reporting the unminimised plan\n" % e)
            plan = regen()
    final = cases.run_case(plan, prop)
    same = [x for x in final.get("violations", []) if cases.signature_class(x) == cases.signature_class(v)]
    if not same:
        plan = regen()
        final = cases.run_case(plan, prop)
        same = [x for x in final.get("violations", []) if cases.signature_class(x) == cases.signature_class(v)] or [v]
    rep_dir = os.path.join(HERE, "replays")
    os.makedirs(rep_dir, exist_ok=True)
    path = os.path.join(rep_dir, "%s-%d-%s-%d.json" % (prop, r["seed"], r["profile"], r["run"]))
    with open(path, "w") as f:
        json.dump(
            {
                "property": prop,
                "violation": same[0],
                "signature_class": list(cases.signature_class(same[0])),
                "seed": r["seed"],
                "run": r["run"],
                "profile": r["profile"],
                "minimisation_executions": used,
                "digest": final.get("digest"),
                "plan": plan,
            },
            f,
            indent=1,
        )
    print("violation: clause=%s %s" % (same[0]["clause"], same[0]["signature"]))
    print("detail: %s" % json.dumps(same[0].get("detail"))[:600])
    print("distinct violation classes in this batch: %d" % len(set(cases.signature_class(x[1]) for x in new_hits)))
    print("VIOLATION property=%s replay=%s" % (prop, path))
    return 1


if __name__ == "__main__":
    sys.exit(main())
