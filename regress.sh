#!/bin/bash
# full regression of the machinery itself: seeded changes, mutants, benign refactors, determinism
/venv/bin/python selftest.py seeded 2>&1 | grep "^SEEDED\|^seeded:" | cut -c1-200
/venv/bin/python selftest.py mutants 2>&1 | grep "exit 0\|^mutants:\|NOT REPORTED" | cut -c1-200
/venv/bin/python selftest.py benign 2>&1 | grep "exit [12]\|^benign:" | cut -c1-200
/venv/bin/python selftest.py determinism --seeds 25 2>&1 | tail -3
