#!/venv/bin/python
"""Self-tests of the machinery itself (not property checks):

  selftest.py determinism [--seeds N]   same plan twice, 1 and 16 workers, two PYTHONHASHSEEDs, fresh interpreters
  selftest.py mutants [--only id,...]   every catalogued mutation must be reported by the named check
  selftest.py seeded                    every kept seeded change under /verif/seeded must be reported
"""
import argparse
import json
import os
import shutil
import subprocess
import sys
import time

HERE = os.path.dirname(os.path.abspath(__file__))
PY = sys.executable
SCRATCH = os.environ.get("VERIF_TMP") or ("/dev/shm" if os.path.isdir("/dev/shm") else "/tmp")


def digests(prop, profile, seed, runs, hashseed, workers=1):
    envv = dict(os.environ)
    envv.pop("WORLDSIM_REEXEC", None)
    envv["VERIF_HASHSEED"] = str(hashseed)
    cmd = [PY, os.path.join(HERE, "check.py"), "--digests", "--property", prop, "--profile", profile, "--seed", str(seed), "--runs", str(runs)]
    out = subprocess.run(cmd, env=envv, capture_output=True, text=True, timeout=3600)
    if out.returncode != 0:
        raise RuntimeError(out.stderr[-3000:])
    return json.loads(out.stdout.strip().splitlines()[-1])


def cmd_determinism(args):
    import concurrent.futures as cf

    jobs = []
    profiles = ["generic", "c13", "c05", "c17", "c07", "c19", "c16", "clean", "cam"]
    for i, prof in enumerate(profiles):
        for hs in (0, 1, 4242):
            jobs.append(("ALL", prof, 1000 + i, args.seeds, hs))
        jobs.append(("ALL", prof, 1000 + i, args.seeds, 0))  # the same thing once more (run-to-run)
    t0 = time.time()
    res = {}
    with cf.ThreadPoolExecutor(max_workers=args.procs) as ex:
        futs = {ex.submit(digests, *j): (k, j) for k, j in enumerate(jobs)}
        for fu in cf.as_completed(futs):
            res[futs[fu]] = fu.result()
    bad = 0
    by_key = {}
    for (k, j), d in res.items():
        by_key.setdefault((j[1], j[2]), []).append((j[4], k, d))
    for key, lst in sorted(by_key.items()):
        ref = lst[0][2]
        for hs, k, d in lst[1:]:
            diffs = [i for i, (a, b) in enumerate(zip(ref, d)) if a != b]
            if diffs or len(ref) != len(d):
                bad += 1
                print("MISMATCH profile=%s seed=%d hashseed=%s runs differing: %s" % (key[0], key[1], hs, diffs[:10]))
    n = sum(len(d) for d in res.values())
    print("determinism: %d executions (%d distinct plans x 4: hash seeds 0,1,4242 and a repeat), %d processes, %.0fs, mismatching groups: %d"
          % (n, n // 4, len(jobs), time.time() - t0, bad))
    return 1 if bad else 0


def make_scratch_repo(tag):
    d = os.path.join(SCRATCH, "worldsim-mutant-%s-%d" % (tag, os.getpid()))
    if os.path.exists(d):
        subprocess.run(["git", "-C", "/repo", "worktree", "remove", "--force", d], capture_output=True)
        shutil.rmtree(d, ignore_errors=True)
    subprocess.run(["git", "-C", "/repo", "worktree", "add", "--detach", "-q", d, "HEAD"], check=True, capture_output=True)
    return d


def drop_scratch_repo(d):
    subprocess.run(["git", "-C", "/repo", "worktree", "remove", "--force", d], capture_output=True)
    shutil.rmtree(d, ignore_errors=True)
    subprocess.run(["git", "-C", "/repo", "worktree", "prune"], capture_output=True)


def run_check(prop, repo, runs=None, tier="quick", seed=None):
    envv = dict(os.environ)
    envv.pop("WORLDSIM_REEXEC", None)
    envv["VERIF_REPO"] = repo
    cmd = [PY, os.path.join(HERE, "check.py"), "--property", prop, "--tier", tier, "--no-evidence", "--no-minimise"]
    if runs:
        cmd += ["--runs", str(runs)]
    if seed is not None:
        cmd += ["--seed", str(seed)]
    t0 = time.time()
    out = subprocess.run(cmd, env=envv, capture_output=True, text=True, timeout=3600)
    lines = [l for l in out.stdout.splitlines() if l.startswith("violation:") or l.startswith("VIOLATION")]
    return out.returncode, lines, time.time() - t0, out.stderr[-1500:]


def cmd_mutants(args):
    sys.path.insert(0, os.path.join(HERE, "mutants"))
    import catalog

    only = set(args.only.split(",")) if args.only else None
    results = []
    for mid, props, rel, old, new in catalog.MUTANTS:
        if only and mid not in only:
            continue
        d = make_scratch_repo(mid)
        try:
            path = os.path.join(d, catalog.P, rel)
            src = open(path).read()
            if src.count(old) != 1:
                print("MUTANT %s: pattern found %d times in %s -- catalogue out of date" % (mid, src.count(old), rel))
                results.append((mid, None, {}))
                continue
            open(path, "w").write(src.replace(old, new))
            row = {}
            for prop in props:
                rc, lines, wall, err = run_check(prop, d)
                row[prop] = rc
                print("MUTANT %-40s %s -> exit %d (%.0fs) %s" % (mid, prop, rc, wall, (lines[0][:150] if lines else err[-200:].replace("\n", " "))), flush=True)
            results.append((mid, all(v == 1 for v in row.values()), row))
        finally:
            drop_scratch_repo(d)
    missed = [r for r in results if r[1] is not True]
    print("mutants: %d applied, %d reported by every named check, %d not" % (len(results), len(results) - len(missed), len(missed)))
    for mid, ok, row in missed:
        print("  NOT REPORTED:", mid, row)
    return 1 if missed else 0


def cmd_seeded(args):
    base = os.path.join(HERE, "seeded")
    rows = []
    only = set(args.only.split(",")) if args.only else None
    for name in sorted(os.listdir(base)) if os.path.isdir(base) else []:
        meta_p = os.path.join(base, name, "meta.json")
        if not os.path.exists(meta_p) or (only and name not in only):
            continue
        meta = json.load(open(meta_p))
        d = make_scratch_repo("seed-" + name)
        try:
            ap = subprocess.run(["git", "-C", d, "apply", os.path.join(base, name, "patch.diff")], capture_output=True, text=True)
            if ap.returncode != 0:
                print("SEEDED %s: patch does not apply: %s" % (name, ap.stderr[:300]))
                rows.append((name, False))
                continue
            ok_any = False
            for prop in meta.get("caught_by") or [meta["property"]]:
                rc, lines, wall, err = run_check(prop, d, tier=args.tier)
                print("SEEDED %-30s %s -> exit %d (%.0fs) %s" % (name, prop, rc, wall, (lines[0][:150] if lines else err[-200:].replace("\n", " "))), flush=True)
                ok_any = ok_any or rc == 1
            rows.append((name, ok_any))
        finally:
            drop_scratch_repo(d)
    missed = [n for n, ok in rows if not ok]
    print("seeded: %d changes, %d reported, missed: %s" % (len(rows), len(rows) - len(missed), missed))
    return 1 if missed else 0


def cmd_benign(args):
    """Behaviour-preserving refactors (written by independent sub-agents): EVERY check must stay silent on them."""
    base = os.path.join(HERE, "benign")
    only = set(args.only.split(",")) if args.only else None
    props = args.props.split(",") if args.props else ["C01", "C02", "C03", "C04", "C05", "C07", "C08", "C10", "C13", "C16", "C17", "C19"]
    alarms = []
    n = 0
    for name in sorted(os.listdir(base)) if os.path.isdir(base) else []:
        patch = os.path.join(base, name, "patch.diff")
        if not os.path.exists(patch) or (only and name not in only):
            continue
        d = make_scratch_repo("benign-" + name)
        try:
            ap_ = subprocess.run(["git", "-C", d, "apply", patch], capture_output=True, text=True)
            if ap_.returncode != 0:
                print("BENIGN %s: patch does not apply: %s" % (name, ap_.stderr[:300]))
                alarms.append((name, "patch does not apply", -1))
                continue
            n += 1
            for prop in props:
                rc, lines, wall, err = run_check(prop, d, tier=args.tier)
                print("BENIGN %-28s %s -> exit %d (%.0fs) %s" % (name, prop, rc, wall, (lines[0][:160] if lines else (err[-200:].replace("\n", " ") if rc else ""))), flush=True)
                if rc != 0:
                    alarms.append((name, prop, rc))
        finally:
            drop_scratch_repo(d)
    print("benign: %d refactors x %d checks, alarms: %s" % (n, len(props), alarms))
    return 1 if alarms else 0


def main():
    ap = argparse.ArgumentParser()
    ap.add_argument("cmd", choices=["determinism", "mutants", "seeded", "benign"])
    ap.add_argument("--props")
    ap.add_argument("--seeds", type=int, default=40)
    ap.add_argument("--procs", type=int, default=16)
    ap.add_argument("--only")
    ap.add_argument("--tier", default="quick")
    args = ap.parse_args()
    return {"determinism": cmd_determinism, "mutants": cmd_mutants, "seeded": cmd_seeded, "benign": cmd_benign}[args.cmd](args)


if __name__ == "__main__":
    sys.exit(main())
