#!/bin/bash
# thorough-tier soak over all claimed properties with a different seed (background use: vp run -- ./soak.sh <seed> <cap>)
SEED=${1:-777}; CAP=${2:-600}
for p in C13 C05 C17 C07 C03 C16 C19 C01 C02 C04 C08 C10; do
  echo "=== $p seed=$SEED"; /venv/bin/python check.py --property $p --tier thorough --seed $SEED --cap $CAP --no-evidence 2>&1 | tail -6 | cut -c1-500
done
