#!/bin/bash
# many different VERIF_SEEDs at quick scale: hunts for false alarms of the kind "one seed in fifty"
FROM=${1:-1}; TO=${2:-20}; CAP=${3:-15}
for s in $(seq $FROM $TO); do
  for p in C13 C05 C17 C07 C03 C16 C19 C01 C02 C04 C08 C10; do
    out=$(/venv/bin/python check.py --property $p --tier quick --seed $s --cap $CAP --no-evidence 2>&1 | grep -v "^check \|KNOWN-FINDING" | tail -4 | tr '\n' ' ' | cut -c1-400)
    echo "seed=$s $p: $out"
  done
done
