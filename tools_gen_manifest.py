#!/usr/bin/env python3
"""Regenerates MANIFEST.json (kept in git; run after changing the per-property texts below)."""
import json, os
HERE = os.path.dirname(os.path.abspath(__file__))
PY = "/venv/bin/python /verif/check.py"
TECH = "deterministic simulation with fault injection: seeded whole-system runs (world -> T4 files -> faulty perception/clock/transport peers -> real evaluator), %s"
CHECKS = {
 "C13": ("primary", "3 (C13)", TECH % "invariants after every driver operation + fresh-twin refinement + pooled-history recomputation",
   "Seeded search over call histories of one PerceptionEvaluationManager under duplicated / re-ordered / dropped deliveries, re-evaluation with other critical filters, interleaved scene queries and evaluator restarts. After every operation: estimates and loaded dataset unchanged (identity and value digests), scene queries pure; at every scene query the scene score is recomputed from the pooled recorded frame results (AP/APH/mAP, CLEAR, GT counts); sampled deliveries are re-executed on a fresh evaluator loaded from the same files and must agree exactly; a permuted-order twin must give the same pooled AP when confidences are distinct. Sampling, not proof.",
   "3D tasks only; fresh twins are run for up to ~8 deliveries per run; tracking twins replay predecessor + delivery; order twin only for detection runs without injected confidence ties; geometry scores trusted."),
 "C05": ("primary", "3 (C05)", TECH % "reference online CLEAR accumulator on the recorded per-frame buckets + fault-accounting twin runs (rename, new id, identity swap)",
   "Frame histories come from a tracker peer with injected identity faults (new id, swap, duplicate id), misses, ghosts, label flips and pose noise, delivered through a lossy / re-ordering transport. Layer 1 (always): counted-once, switch<=TP, MOTA/MOTP formulas, ground-truth-weighted totals, per frame and per scene. Layer 2 (rule-unambiguous histories): counters equal a statement-level reference accumulator. Twins: consistent renaming of estimate ids and dataset instance tokens (second dataset on disk) changes nothing; on fault-free runs one new id costs exactly one switch and an identity exchange exactly two; perfect tracking gives MOTA 1.",
   "The statement does not fix how a result becomes a TP when it repeats the previous frame's pairing (the code books the previous score); histories where that matters, cross-label pairs inside a bucket and duplicate ids in one frame are counted as ambiguous and get layer 1 only. Matching scores are read from the implementation."),
 "C17": ("primary", "3 (C17)", TECH % "every message stamp is a reading of a skewed / jittering / jumping simulated clock; reference nearest-in-tolerance and lerp/slerp models",
   "Every lookup the driver makes (plus dedicated query bursts at sample times, mid-points, tolerance +-1 us, before the first and after the last sample) is judged against a reference: nearest loaded frame within tolerance or nothing; for interpolated lookup the neighbour gating, the exact query stamp, the id union, and each object's global pose on the segment / shortest arc computed with independent quaternion arithmetic; bounded progress: a delivery that finds its frame yields exactly one more frame result.",
   "Orientation tolerance 5e-6 rad because pyquaternion blends close quaternions linearly; exact ties in time accept either frame; stamps >= 1e17 (documented nanosecond guard) not generated; poses are compared in global coordinates whatever frame the returned objects are expressed in."),
 "C07": ("primary", "3 (C07)", TECH % "twin evaluators (ego-frame and map-frame) driven by one schedule, step-by-step agreement",
   "Each run is executed twice from the same plan, once with evaluator and estimates in base_link and once in map (estimates moved by the world's ego pose), under the same faulty delivery schedule; kept results, pairs, per-object scores, TP/FP/FN/TN, AP/APH/mAP, MOTA/MOTP/switches must agree (1e-6). A disagreement is discarded as indeterminate only if some threshold decision of either execution lies within 1e-6 of its boundary (margins computed from the recorded calls).",
   "Ego poses vary in x, y, z and yaw (no roll/pitch); plans with interpolated lookup are skipped (interpolated ground truth is always returned in the map frame); FP-validation runs are skipped (no metrics; pass/fail covered by C03 in both frames)."),
 "C03": ("primary", "3 (C03)", TECH % "counting / membership invariants on every evaluator step, region check from world truth",
   "After every add_frame_result in every simulated history (all three tasks, both frames, narrow and wide critical filters, FP-labelled ground truth, duplicates and re-evaluation): results = TP + FP by identity, every critical ground truth accounted exactly once, ordinary GT = TP + FN, nothing foreign in the four lists, each TP label-compatible and beating the pass/fail threshold of its GT label, nobody outside the critical region (ego-relative position recomputed from world truth), success/fail counts.",
   "Pass/fail score of boxes in space (plane distance) read from the implementation, IoU of image ROIs recomputed; worlds never contain two ground truths equal in time, label, position and orientation (DynamicObject.__eq__ cannot tell them apart)."),
 "C16": ("primary, I/O", "3 (C16)", TECH % "simulator is the storage peer: world tables -> real files -> real devkit + loader, compared table by table; reload after evaluator restart",
   "Generated well-formed T4 datasets (1..24 samples, appearing/disappearing instances, categories inside and outside the label table, T4 and nuScenes visibility spellings or none, extra camera/radar sensors, sensor records stamped after their sample, shuffled row order, negated quaternions) are loaded by the real loader for detection / tracking / fp_validation managers and directly for the sensing task, in both frames; frames, timestamps, one object per annotation, uuid, label, attributes, size, point count, visibility, pose in map / ego frame, stored ego->map transform, tracked-path window; a second load (evaluator restart) must give equal frames.",
   "No disk faults: the statement quantifies over well-formed datasets. Label conversion itself (C14) is trusted. Tracked-path positions are judged in the map frame only (the devkit returns global records)."),
 "C19": ("primary", "3 (C19)", TECH % "end-of-run check over the recorded history handed over through the pickle result store to the real analyzer",
   "At analyze events (mid-run and at the end; several scenes when the evaluator was restarted) the manager's frame results are pickled, unpickled and fed to PerceptionAnalyzer3D (fresh, or recycled: add / clear / add) with 1/3/9 area divisions: per-status counts, estimate count, ground-truth count, row pairs in documented order with ego-frame x/y/yaw from world truth, area index, errors = GT - estimate (yaw wrapped), mean/RMS/max summaries, rates in [0,1], confusion-matrix sum, label and scene selections, per-object status tallies.",
   "Three listed findings (known_findings.json KF-C19-1..3) are reported as KNOWN-FINDING; analysis is only run when the evaluator's x/y bounds are scalars (the analyzer's grid takes scalars); empty tables are skipped."),
 "C01": ("secondary: step-conformance clause", "4 (C01)", TECH % "monitor on every matching call the stateful manager makes, predicates from the statement",
   "Every get_object_results call made by the manager in every simulated history is recorded (inputs, output) and judged: one-to-one, nothing foreign, same frame id only, within the matchable radius of the GT label, completeness outside FP validation, unpaired estimates dropped in FP validation (including empty ground truth), caller lists untouched.",
   "Covers what flows through the manager: 3D boxes and image ROIs (camera worlds) paired by centre distance, plus probe calls of the real matcher with the other pairing criteria on every recorded input; ROI-less 2D objects (classification / traffic lights) are not reached."),
 "C02": ("secondary", "4 (C02)", TECH % "blocking-pair predicate and exact two-stage greedy on every recorded matching call",
   "On the same recorded calls: no matchable pair blocks the assignment in the sense of the statement; when no two candidate scores are within 1e-9 the pairs equal an independent two-stage greedy, in the same order.",
   "Centre distance recomputed independently (for image ROIs to within 0.75 px: half-pixel centres); IoU of image ROIs computed by the reference, other probe scores read from the implementation; calls with a pair at the radius boundary are skipped; coverage limit as C01."),
 "C04": ("secondary", "4 (C04)", TECH % "independent interpolated-area routine on the observed ranking of every frame score and scene score",
   "For every Map of every frame result and every scene query: ranking by descending confidence (stable), TP iff label-compatible and score beats the label's threshold, AP/APH = interpolated PR area (1e-9), mAP/mAPH = mean of defined, [0,1], APH <= AP; perfect frames give AP 1. The simulation adds pooled multi-frame rankings with duplicates and re-ordered deliveries.",
   "Scores of boxes in space read from the implementation, scores of image ROIs and the heading agreement (direction of the x-axis on the ground plane) recomputed; modes, per-label thresholds and label order of every score checked against the plan; rankings with confidence ties that matter and decisions within 1e-6 of a threshold are skipped; rankings are not enumerated exhaustively."),
 "C08": ("secondary", "4 (C08)", TECH % "cross-invariants between thresholds of one step and between a step and its looser-threshold twin delivery",
   "Within every frame and scene score: for every matching mode with >= 2 thresholds AP/APH/mAP are monotone from stricter to looser. For sampled deliveries a twin evaluator receives the same delivery with the pass/fail threshold loosened x1.5 and x4: TP set grows, FN count does not (ordinary ground truth only).",
   "Twin comparisons are skipped when the twin does not see the same results (history dependence is C13's business)."),
 "C10": ("secondary", "4 (C10)", TECH % "reference predicate with world-truth ego pose on every filter call of the manager / frame result, plus probe calls",
   "Every filter_objects / filter_object_results call made during every step is recorded and judged: output = order-preserving sub-list selected by the reference predicate (ego-relative position recomputed from the object's state and the world's ego pose), a result removed when either side fails, input untouched; the real function is called again for idempotence, with each bound widened (superset) and with the paired ground truths' own scores lowered (confidence binds estimates only).",
   "Per recorded call (relative to the call's arguments, object roles decided by provenance) and end to end (final ground truth of the frame result against the criteria the plan configured); 3D objects and image ROIs (label / attribute / confidence / uuid criteria only); GT-less results under a uuid filter are not judged (statement silent); decisions within 1e-6 of a bound skipped."),
}
NA = json.load(open(os.path.join(HERE, "MANIFEST.json")))["not_applicable"]
checks = []
for pid in sorted(CHECKS):
    role, ref, tech, text, note = CHECKS[pid]
    checks.append({
        "property_id": pid,
        "quick_cmd": "%s --property %s --tier quick" % (PY, pid),
        "thorough_cmd": "%s --property %s --tier thorough" % (PY, pid),
        "evidence_file": "/verif/evidence/%s.json" % pid,
        "replay_cmd_template": "%s --property %s --replay {path}" % (PY, pid),
        "engine": "worldsim",
        "level_claimed": {"category": "exploration", "text": "(%s) %s" % (role, text), "design_ref": "DESIGN.md section " + ref},
        "level_note": note,
        "technique": tech,
    })
m = {
  "version": 1,
  "setup_cmd": "/venv/bin/python /verif/check.py --selftest-import",
  "hooks": {
    "guard": "PERCEPTION_EVAL_VERIF",
    "enable": "no hook exists in /repo: every seam is a function argument, the dataset directory or a module-level name rebound from /verif (DESIGN.md 2.2); checks export PERCEPTION_EVAL_VERIF=1 for uniformity and import /repo's working tree directly (Python, nothing to build)",
    "baseline_off_cmd": "cd /repo && /venv/bin/python -m pytest -ra -q -p no:cacheprovider --timeout=900 --continue-on-collection-errors",
    "source_commits": [],
    "add_only": True
  },
  "engines": [{"name": "worldsim", "path": "/verif/worldsim", "serves_properties": sorted(CHECKS),
               "kind_free_text": "deterministic whole-system simulator with fault injection around the real evaluator: plan (all randomness, from VERIF_SEED) / PRNG-free executor / reference-model oracles / delta-debugging of plans / replay files"}],
  "checks": checks,
  "not_applicable": NA,
  "notes": "All checks: /venv/bin/python /verif/check.py --property <id> --tier quick|thorough [--replay file]. VERIF_SEED / VERIF_TIER / VERIF_WORKERS / VERIF_REPO (scratch copy for mutant runs) are honoured. Determinism self-test: /venv/bin/python /verif/selftest.py determinism; sensitivity: /venv/bin/python /verif/selftest.py mutants. Genuine defects repaired in /repo by 'fix:' commits and the open findings are listed in /verif/known_findings.json."
}
json.dump(m, open(os.path.join(HERE, "MANIFEST.json"), "w"), indent=1)
print("wrote MANIFEST.json with", len(checks), "checks")
