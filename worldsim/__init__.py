"""worldsim: deterministic whole-system simulator around perception_eval (see /verif/DESIGN.md)."""
