"""One simulated run judged for one property: which monitors / twins run, and what comes back (JSON-able)."""
import hashlib
import json
import re
import shutil
import time
import traceback

from . import digest as D
from . import env
from . import executor as X
from . import oracles_analysis as OA
from . import oracles_rel as OR
from . import oracles_step as OS
from . import oracles_world as OW

CLAIMED = ["C01", "C02", "C03", "C04", "C05", "C07", "C08", "C10", "C13", "C16", "C17", "C19"]

PROFILE_OF = {
    "C01": "c01", "C02": "c01", "C03": "c03", "C04": "c04", "C05": "c05", "C07": "c07", "C08": "c08",
    "C10": "c10", "C13": "c13", "C16": "c16", "C17": "c17", "C19": "c19",
}


def monitors_for(prop):
    exc = OS.ExceptionMonitor()
    if prop in ("C01", "C02"):
        return [exc, OS.MatchingMonitor()]
    if prop == "C03":
        return [exc, OS.C03Monitor()]
    if prop == "C04":
        return [exc, OS.C04Monitor(check_c08=False)]
    if prop == "C08":
        return [exc, OS.C04Monitor(check_c08=True)]
    if prop == "C10":
        return [exc, OS.C10Monitor()]
    if prop == "C13":
        return [exc, OR.C13Monitor()]
    if prop == "C05":
        return [exc, OR.C05Monitor()]
    if prop == "C07":
        return [exc]
    if prop == "C16":
        return [exc, OW.C16Monitor(sensing_load=True)]
    if prop == "C17":
        return [exc, OW.C17Monitor()]
    if prop == "C19":
        return [exc, OA.C19Monitor()]
    if prop == "ALL":
        return [exc, OW.C16Monitor(True), OW.C17Monitor(), OS.C10Monitor(), OS.MatchingMonitor(), OS.C03Monitor(),
                OS.C04Monitor(), OR.C13Monitor(), OR.C05Monitor(), OA.C19Monitor()]
    raise ValueError(prop)


def relational_for(prop, ctx, lane):
    if lane.aborted:
        return
    if prop in ("C13", "ALL"):
        OR.check_history_independence(ctx, lane)
        OR.check_order_independence(ctx, lane)
        if ctx.plan["run"] % 3 == 0:
            OR.check_interleaved_manager(ctx, lane)
    if prop in ("C05", "ALL") and ctx.plan["config"]["task"] == "tracking":
        OR.check_rename_twin(ctx, lane)
        OR.check_identity_fault_twins(ctx, lane)
    if prop in ("C07", "ALL") and ctx.plan["config"]["task"] != "fp_validation" and ctx.plan["config"].get("dim") != 2:
        OR.check_frame_twin(ctx, lane)
    if prop in ("C08", "ALL"):
        OR.check_looser_passfail(ctx, lane)
    if prop in ("C16", "ALL") and ctx.plan.get("sibling"):
        # a second, different dataset with the same timestamps and tokens loaded in the same process
        from .plan import derive_sibling

        sub = OR._sub_ctx(ctx, derive_sibling(ctx.plan))
        sib = X.Lane(sub, "sibling", monitors=[OW.C16Monitor(sensing_load=False)])
        try:
            X._install_wrappers()
            sib.build_manager()
            ctx.probe("c16_sibling_dataset")
        except X.LaneAborted:
            pass
    if prop in ("C19", "ALL") and ctx.plan.get("sibling"):
        from .plan import derive_sibling

        p2 = derive_sibling(ctx.plan)
        p2["ops"] = [op for op in p2["ops"] if op["op"] != "analyze"]
        sub = OR._sub_ctx(ctx, p2)
        sib = X.Lane(sub, "sibling", monitors=[])
        sib.run()
        if not sib.aborted and not lane.aborted:
            s1, e1 = OA.lane_scenes(lane)
            s2, e2 = OA.lane_scenes(sib)
            if s1 and s2:
                ctx.probe("c19_two_dataset_analysis")
                OA.check_tables(ctx, lane, s1 + s2, e1 + e2, [1, 3, 9][ctx.plan["run"] % 3], None)
    if prop in ("C16",):
        # crash/restart of the evaluator: the files are the only durable state -> reload must give equal frames
        try:
            lane.do_restart(None)
        except X.LaneAborted:
            pass


_NUM = re.compile(r"-?\d+(\.\d+)?(e-?\d+)?")


def signature_class(v):
    """Violation class used for minimisation / replay: property, clause and the signature with numbers removed."""
    return (v["property"], v["clause"], _NUM.sub("#", v["signature"]))


def _json(x):
    if isinstance(x, dict):
        return {str(k): _json(v) for k, v in x.items()}
    if isinstance(x, (list, tuple, set)):
        return [_json(v) for v in x]
    if isinstance(x, float):
        if x != x:
            return "nan"
        if x in (float("inf"), float("-inf")):
            return "inf" if x > 0 else "-inf"
        return x
    if isinstance(x, (int, str, bool)) or x is None:
        return x
    return str(x)


def event_log(ctx, lane):
    """Compact log of everything observable in the main lane; its hash is the determinism digest."""
    log = []
    for q, f in lane.lookups:
        log.append(["lookup", q["t"], q["tol"], q["interp"], q["kind"], q["frame_index"], None if q["exc"] is None else type(q["exc"]).__name__])
    for st in lane.steps:
        d = D.step_digest(ctx, st)
        if "scores" in d:
            d = dict(d)
            d["scores"] = sorted((list(k), list(v)) for k, v in d["scores"].items())
        log.append(["step", st.index, st.msg["mid"], _json(d)])
    for s in lane.scene_scores:
        log.append(["scene", s["index"], s["n_frames"], None if s["score"] is None else _json(D.metrics_digest(s["score"]))])
    log.append(["violations", sorted(json.dumps(_json(dict(v)), sort_keys=True) for v in ctx.violations)])
    log.append(["probes", sorted(ctx.probes.items())])
    log.append(["skips", sorted(ctx.skips.items())])
    return log


def trace_shape(plan):
    """Normalised delivery trace: op kinds with the relative order pattern of the messages they carry."""
    order = {}
    out = []
    for op in plan["ops"]:
        if op["op"] == "deliver":
            k = order.setdefault(op["mid"], len(order))
            out.append("d%d%s%s" % (k, "c" if "crit" in op else "", "p" if "pf" in op else ""))
        else:
            out.append(op["op"][0])
    return ".".join(out)


def run_case(plan, prop, want_log=False):
    """Execute one plan and judge it for `prop`.  Returns a JSON-able dict; never raises for repo misbehaviour."""
    t0 = time.time()
    root = X.new_scratch("case")
    out = {"seed": plan.get("seed"), "run": plan.get("run"), "profile": plan.get("profile")}
    try:
        ctx = X.Ctx(plan, root)
        if prop in ("C13", "ALL") and plan.get("run", 0) % 3 == 1:
            OR.run_prelude_evaluator(ctx)
        mons = monitors_for(prop)
        if plan["config"].get("dim") == 2:
            # camera worlds carry image ROIs: the loader / lookup / analysis / frame-twin oracles are about boxes in space
            mons = [m for m in mons if not isinstance(m, (OW.C16Monitor, OW.C17Monitor, OA.C19Monitor))]
            ctx.probe("camera_world_runs")
        lane = X.Lane(ctx, "main", monitors=mons)
        lane.run()
        relational_for(prop, ctx, lane)
        vio = [_json(dict(v)) for v in ctx.violations]
        out["violations"] = [v for v in vio if prop == "ALL" or v["property"] == prop]
        out["other_violations"] = len(vio) - len(out["violations"])
        out["probes"] = dict(ctx.probes)
        out["skips"] = dict(ctx.skips)
        out["fired"] = dict(plan.get("fired", {}))
        steps = [st for st in lane.steps]
        out["n_ops"] = len(plan["ops"])
        out["n_steps"] = len(steps)
        out["n_evaluated"] = sum(1 for st in steps if st.result is not None)
        out["nontrivial"] = any(
            st.result is not None and st.estimates and len(st.gt_snapshot or []) > 0 for st in steps
        )
        out["faulty"] = bool(plan.get("fired"))
        samples = plan["world"]["samples"]
        out["sim_seconds"] = (samples[-1]["t"] - samples[0]["t"]) / 1e6
        out["restarts"] = lane.restarts
        out["trace"] = trace_shape(plan)
        cfg = plan["config"]
        out["state_keys"] = sorted(set(
            "%s|%s|%d|%s|%s|%d" % (cfg["task"], cfg["frame"] if cfg.get("dim") != 2 else "cam", min(5, st.n_results_before or 0), st.frame_kind,
                                   "c" if "crit" in st.op else "-", st.manager_gen)
            for st in steps
        ))
        log = event_log(ctx, lane)
        out["digest"] = hashlib.sha256(json.dumps(log, sort_keys=True).encode()).hexdigest()
        if want_log:
            out["log"] = log
        try:
            import matplotlib.pyplot as plt

            plt.close("all")
        except Exception:  # noqa
            pass
    except Exception as e:  # noqa  -- anything escaping to here is a harness problem, never a verdict
        out["harness_error"] = "".join(traceback.format_exception(type(e), e, e.__traceback__))[-3000:]
    finally:
        shutil.rmtree(root, ignore_errors=True)
    out["wall"] = time.time() - t0
    return out


def plan_summary(plan):
    """Short human-readable description of a plan for the evidence file."""
    cfg = plan["config"]
    return {
        "seed": plan["seed"],
        "run": plan["run"],
        "profile": plan["profile"],
        "task": cfg["task"],
        "frame": cfg["frame"],
        "target_labels": cfg["target_labels"],
        "samples": len(plan["world"]["samples"]),
        "actors": len(plan["world"]["actors"]),
        "messages": len(plan["messages"]),
        "objects_per_message": [len(m["objects"]) for m in plan["messages"]][:12],
        "lookup": plan["lookup"],
        "fired": plan["fired"],
        "ops": trace_shape(plan),
    }
