"""Minimisation of a failing plan: delete / simplify plan elements while the same violation class persists.

Plans are plain data and the executor draws no randomness, so removing an element never shifts anything else.
"""
import copy
import time

from . import cases


def _fails(plan, prop, want):
    res = cases.run_case(plan, prop)
    if "harness_error" in res:
        return False
    return any(cases.signature_class(v) == want for v in res["violations"])


def _drop_actor(plan, ai):
    p = copy.deepcopy(plan)
    del p["world"]["actors"][ai]
    for m in p["messages"]:
        objs = []
        for o in m["objects"]:
            if o["src"] == ai:
                continue
            if o["src"] > ai:
                o["src"] -= 1
            objs.append(o)
        m["objects"] = objs
    return p


def _truncate_samples(plan, n):
    p = copy.deepcopy(plan)
    p["world"]["samples"] = p["world"]["samples"][:n]
    for a in p["world"]["actors"]:
        a["states"] = a["states"][:n]
    p["world"]["actors"] = [a for a in p["world"]["actors"]]
    keep = set(m["mid"] for m in p["messages"] if m["sample"] < n)
    p["ops"] = [op for op in p["ops"] if op["op"] != "deliver" or op["mid"] in keep]
    for m in p["messages"]:
        if m["sample"] >= n:
            m["objects"] = []
            m["sample"] = n - 1
    return p


def minimise(plan, prop, violation, budget_s=90.0, max_exec=250):
    """Returns (minimised plan, executions used)."""
    want = cases.signature_class(violation)
    t_end = time.time() + budget_s
    used = [0]

    def ok(p):
        if used[0] >= max_exec or time.time() > t_end:
            return False
        used[0] += 1
        try:
            return _fails(p, prop, want)
        except Exception:  # noqa
            return False

    cur = copy.deepcopy(plan)
    cur["twins"] = []

    def shrink_list(get, put, label):
        nonlocal cur
        items = get(cur)
        chunk = max(1, len(items) // 2)
        while items:
            i = 0
            while i < len(items):
                cand_items = items[:i] + items[i + chunk:]
                cand = copy.deepcopy(cur)
                put(cand, copy.deepcopy(cand_items))
                if ok(cand):
                    cur, items = cand, cand_items
                else:
                    i += chunk
            if chunk == 1:
                break
            chunk = max(1, chunk // 2)

    # 1. operations, pure lookups
    shrink_list(lambda p: p["ops"], lambda p, v: p.__setitem__("ops", v), "ops")
    shrink_list(lambda p: p.get("lookups", []), lambda p, v: p.__setitem__("lookups", v), "lookups")
    # 2. per-op overrides
    for i in range(len(cur["ops"])):
        for key in ("crit", "pf", "lookup"):
            if key in cur["ops"][i]:
                cand = copy.deepcopy(cur)
                del cand["ops"][i][key]
                if ok(cand):
                    cur = cand
    # 3. actors
    ai = len(cur["world"]["actors"]) - 1
    while ai >= 0:
        cand = _drop_actor(cur, ai)
        if ok(cand):
            cur = cand
        ai -= 1
    # 4. samples from the end
    n = len(cur["world"]["samples"])
    while n > 1:
        cand = _truncate_samples(cur, n - 1)
        if ok(cand):
            cur = cand
            n -= 1
        else:
            break
    # 5. objects inside the messages that are still delivered
    used_mids = set(op["mid"] for op in cur["ops"] if op["op"] == "deliver")
    for mi, m in enumerate(cur["messages"]):
        if m["mid"] not in used_mids:
            if m["objects"]:
                cur["messages"][mi]["objects"] = []
            continue
        shrink_list(lambda p, mi=mi: p["messages"][mi]["objects"],
                    lambda p, v, mi=mi: p["messages"][mi].__setitem__("objects", v), "objects")
    # 6. optional configuration
    for key, val in (("radii", None), ("conf_thr", None), ("ignore_attrs", None), ("target_uuids", None)):
        if cur["config"].get(key) is not None:
            cand = copy.deepcopy(cur)
            cand["config"][key] = val
            if ok(cand):
                cur = cand
    for key in list(cur["config"].get("thresholds", {})):
        if key == "center":
            continue
        cand = copy.deepcopy(cur)
        del cand["config"]["thresholds"][key]
        if ok(cand):
            cur = cand
    for key in ("extra_sensors", "order", "extra_categories"):
        if cur["storage"].get(key):
            cand = copy.deepcopy(cur)
            cand["storage"][key] = [] if key != "order" else {}
            if ok(cand):
                cur = cand
    cur["minimised"] = True
    return cur, used[0]
