"""Lane-independent digests of what a step / scene score observably produced (plain values only)."""
import math

from . import views as V

_MODES = ("center_distance", "plane_distance", "iou_2d", "iou_3d")


def _f(x):
    if x is None:
        return None
    x = float(x)
    if math.isinf(x):
        return "inf"
    if math.isnan(x):
        return "nan"
    return x


def est_key(ctx, est):
    info = ctx.est_registry.get(id(est))
    return None if info is None else info["k"]


def result_key(ctx, r, inv_token=None):
    g = r.ground_truth_object
    u = None if g is None else g.uuid
    if inv_token and u is not None:
        u = inv_token.get(u, u)
    return (est_key(ctx, r.estimated_object), u)


def metrics_digest(score):
    """Detection and tracking numbers of a MetricsScore."""
    maps = []
    for m in score.maps:
        maps.append(
            {
                "mode": m.matching_mode.value,
                "thr": [float(t) for t in m.matching_threshold_list],
                "labels": [l.value for l in m.target_labels],
                "ap": [_f(a.ap) for a in m.aps],
                "aph": [_f(a.ap) for a in m.aphs],
                "map": _f(m.map),
                "maph": _f(m.maph),
                "ngt": [a.num_ground_truth for a in m.aps],
                "nres": [a.objects_results_num for a in m.aps],
            }
        )
    trs = []
    for t in score.tracking_scores:
        mota, motp, idsw = t._sum_clear()
        trs.append(
            {
                "mode": t.matching_mode.value,
                "labels": [l.value for l in t.target_labels],
                "thr": [float(c.matching_threshold_list[0]) for c in t.clears],
                "clears": [{k: _f(v) for k, v in c.results.items()} for c in t.clears],
                "ngt": [c.num_ground_truth for c in t.clears],
                "sum": [_f(mota), _f(motp), idsw],
            }
        )
    return {"maps": maps, "tracking": trs, "num_gt": score.num_ground_truth}


def step_digest(ctx, st, inv_token=None):
    """Digest of one executed delivery."""
    if st.frame is None:
        return {"frame": None}
    if st.result is None:
        return {"frame": st.frame_kind, "exc": type(st.exc).__name__ if st.exc is not None else None}
    fr = st.result
    pf = fr.pass_fail_result

    def u(g):
        x = g.uuid
        return inv_token.get(x, x) if inv_token else x

    scores = {}
    for r in fr.object_results:
        key = result_key(ctx, r, inv_token)
        scores[key] = tuple(_f(V.score_value(r, a)) for a in _MODES)
    return {
        "frame": st.frame_kind,
        "frame_index": st.frame_index,
        "results": [result_key(ctx, r, inv_token) for r in fr.object_results],
        "tp": sorted(result_key(ctx, r, inv_token) for r in pf.tp_object_results),
        "fp": sorted(((est_key(ctx, r.estimated_object)), None if r.ground_truth_object is None else u(r.ground_truth_object))
                     for r in pf.fp_object_results),
        "fn": sorted(u(g) for g in pf.fn_objects),
        "tn": sorted(u(g) for g in pf.tn_objects),
        "gt": sorted(u(g) for g in fr.frame_ground_truth.objects),
        "scores": scores,
        "metrics": metrics_digest(fr.metrics_score),
    }


def _num_eq(a, b, tol):
    if a == b:
        return True
    if isinstance(a, (int, float)) and isinstance(b, (int, float)) and not isinstance(a, bool):
        return abs(a - b) <= tol * max(1.0, abs(a), abs(b))
    return False


def diff(a, b, tol=1e-9, path=""):
    """First difference between two digests (nested dict / list / tuple / number), or None."""
    if isinstance(a, dict) and isinstance(b, dict):
        ka, kb = sorted(a, key=repr), sorted(b, key=repr)
        if ka != kb:
            return "%s: keys %r vs %r" % (path, ka[:6], kb[:6])
        for k in ka:
            d = diff(a[k], b[k], tol, "%s/%s" % (path, k))
            if d:
                return d
        return None
    if isinstance(a, (list, tuple)) and isinstance(b, (list, tuple)):
        if len(a) != len(b):
            return "%s: length %d vs %d" % (path, len(a), len(b))
        for i, (x, y) in enumerate(zip(a, b)):
            d = diff(x, y, tol, "%s[%d]" % (path, i))
            if d:
                return d
        return None
    if _num_eq(a, b, tol):
        return None
    return "%s: %r vs %r" % (path, a, b)
