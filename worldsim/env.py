"""Process environment: deterministic interpreter settings, repo import path, scratch directories."""
import os
import sys
import tempfile

VERIF_ROOT = os.path.dirname(os.path.dirname(os.path.abspath(__file__)))
GUARD = "PERCEPTION_EVAL_VERIF"

_FIXED_ENV = {
    "PYTHONHASHSEED": "0",
    "OMP_NUM_THREADS": "1",
    "OPENBLAS_NUM_THREADS": "1",
    "MKL_NUM_THREADS": "1",
    "MPLBACKEND": "Agg",
    "TQDM_DISABLE": "1",
    "PYTHONWARNINGS": "ignore",
    GUARD: "1",
}


def repo_root():
    return os.environ.get("VERIF_REPO", "/repo")


def ensure_env(argv=None):
    """Re-exec the interpreter once so that hash seed / thread counts are fixed before anything is imported."""
    want = dict(_FIXED_ENV)
    if os.environ.get("VERIF_HASHSEED"):
        want["PYTHONHASHSEED"] = os.environ["VERIF_HASHSEED"]
    need = any(os.environ.get(k) != v for k, v in want.items())
    if need and os.environ.get("WORLDSIM_REEXEC") != "1":
        env = dict(os.environ)
        env.update(want)
        env["WORLDSIM_REEXEC"] = "1"
        pp = os.path.join(repo_root(), "perception_eval")
        env["PYTHONPATH"] = pp + os.pathsep + VERIF_ROOT + (os.pathsep + env["PYTHONPATH"] if env.get("PYTHONPATH") else "")
        argv = argv or sys.argv
        os.execve(sys.executable, [sys.executable] + argv, env)
    # not re-exec'ing (already done, or environment was right): still make sure the repo copy wins
    pp = os.path.join(repo_root(), "perception_eval")
    if pp not in sys.path:
        sys.path.insert(0, pp)
    if VERIF_ROOT not in sys.path:
        sys.path.insert(0, VERIF_ROOT)


def scratch_base():
    base = os.environ.get("VERIF_TMP")
    if not base:
        base = "/dev/shm" if os.path.isdir("/dev/shm") and os.access("/dev/shm", os.W_OK) else tempfile.gettempdir()
    path = os.path.join(base, "worldsim-%d" % os.getuid())
    os.makedirs(path, exist_ok=True)
    return path


_IMPORTED = {}


def repo():
    """Import everything the harness needs from perception_eval exactly once; returns a namespace dict."""
    if _IMPORTED:
        return _IMPORTED
    import logging
    import warnings

    warnings.filterwarnings("ignore")
    logging.disable(logging.CRITICAL)

    import numpy as np
    from pyquaternion import Quaternion

    import perception_eval
    from perception_eval.common import dataset as ds_mod
    from perception_eval.common.dataset import FrameGroundTruth, load_all_datasets
    from perception_eval.common.label import LabelConverter
    from perception_eval.common.object import DynamicObject
    from perception_eval.common.object2d import DynamicObject2D
    from perception_eval.common.schema import FrameID, Visibility
    from perception_eval.common.shape import Shape, ShapeType
    from perception_eval.common.evaluation_task import EvaluationTask
    from perception_eval.config import PerceptionEvaluationConfig
    from perception_eval.evaluation.matching import MatchingMode
    from perception_eval.evaluation.matching.object_matching import MatchingLabelPolicy
    from perception_eval.evaluation.metrics.detection.tp_metrics import TPMetricsAph
    from perception_eval.evaluation.result import perception_frame_result as pfr_mod
    from perception_eval.evaluation.result.perception_frame_config import (
        CriticalObjectFilterConfig,
        PerceptionPassFailConfig,
    )
    from perception_eval.evaluation.result.object_result import DynamicObjectWithPerceptionResult
    from perception_eval.manager import perception_evaluation_manager as mgr_mod
    from perception_eval.manager import PerceptionEvaluationManager

    src = os.path.realpath(os.path.dirname(perception_eval.__file__))
    expect = os.path.realpath(os.path.join(repo_root(), "perception_eval", "perception_eval"))
    if src != expect:
        raise RuntimeError("perception_eval imported from %s, expected %s" % (src, expect))

    # The evaluator builds one matplotlib figure per manager in its visualizer.  Visualisation is not on any
    # claimed path, so the harness replaces the visualizer class *as seen by the manager module* with a stub.
    class _NoVisualizer:
        def __init__(self, *a, **k):
            pass

    mgr_mod.PerceptionVisualizer3D = _NoVisualizer
    mgr_mod.PerceptionVisualizer2D = _NoVisualizer

    _IMPORTED.update(
        np=np,
        Quaternion=Quaternion,
        ds_mod=ds_mod,
        FrameGroundTruth=FrameGroundTruth,
        load_all_datasets=load_all_datasets,
        LabelConverter=LabelConverter,
        DynamicObject=DynamicObject,
        DynamicObject2D=DynamicObject2D,
        FrameID=FrameID,
        Visibility=Visibility,
        Shape=Shape,
        ShapeType=ShapeType,
        EvaluationTask=EvaluationTask,
        PerceptionEvaluationConfig=PerceptionEvaluationConfig,
        MatchingMode=MatchingMode,
        MatchingLabelPolicy=MatchingLabelPolicy,
        TPMetricsAph=TPMetricsAph,
        pfr_mod=pfr_mod,
        mgr_mod=mgr_mod,
        CriticalObjectFilterConfig=CriticalObjectFilterConfig,
        PerceptionPassFailConfig=PerceptionPassFailConfig,
        DynamicObjectWithPerceptionResult=DynamicObjectWithPerceptionResult,
        PerceptionEvaluationManager=PerceptionEvaluationManager,
        src=src,
    )
    return _IMPORTED
