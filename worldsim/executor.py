"""Executor: replays a Plan against the REAL evaluator.  PRNG-free, clock-free.

The executor is the "driver" peer of DESIGN.md section 2.1: it writes the dataset, builds the real
configuration and manager, performs the plan's operations in order and records what happened.  All
judgement is left to the oracles, which receive the records through the `monitor` callbacks.
"""
import os
import pickle
import shutil
import traceback

from . import env
from . import refmath as rm
from . import storage as storage_mod
from . import views as V

# ------------------------------------------------------------------------------------------------------
# recording pass-throughs around the seams (module-level names of the manager / frame-result modules)
# ------------------------------------------------------------------------------------------------------

_CALL_LOG = None  # list while a step is being executed, else None
_ORIG = {}


def _install_wrappers():
    if _ORIG:
        return
    R = env.repo()
    mgr, pfr = R["mgr_mod"], R["pfr_mod"]

    def wrap(mod, name, site):
        orig = getattr(mod, name)
        _ORIG[(site, name)] = orig

        def recorder(*args, **kwargs):
            log = _CALL_LOG
            if log is None:
                return orig(*args, **kwargs)
            rec = {"site": site, "fn": name, "args": args, "kwargs": kwargs}
            # snapshot of list arguments (identity sequences) to detect mutation of inputs
            rec["in_lists"] = [list(a) if isinstance(a, list) else None for a in args]
            rec["in_kwlists"] = {k: list(v) for k, v in kwargs.items() if isinstance(v, list)}
            try:
                out = orig(*args, **kwargs)
            except BaseException as e:  # noqa
                rec["exc"] = e
                log.append(rec)
                raise
            rec["out"] = out
            rec["out_list"] = list(out) if isinstance(out, list) else None
            mutated = False
            for a, snap in zip(args, rec["in_lists"]):
                if snap is not None and (len(a) != len(snap) or any(x is not y for x, y in zip(a, snap))):
                    mutated = True
            for k, snap in rec["in_kwlists"].items():
                a = kwargs[k]
                if len(a) != len(snap) or any(x is not y for x, y in zip(a, snap)):
                    mutated = True
            rec["mutated"] = mutated
            log.append(rec)
            return out

        recorder.__wrapped__ = orig
        setattr(mod, name, recorder)

    wrap(mgr, "filter_objects", "manager")
    wrap(mgr, "filter_object_results", "manager")
    wrap(mgr, "get_object_results", "manager")
    wrap(pfr, "filter_objects", "frame")
    wrap(pfr, "filter_object_results", "frame")


def original(site, name):
    return _ORIG[(site, name)]


# ------------------------------------------------------------------------------------------------------
# helpers to turn plan specs into real configuration objects
# ------------------------------------------------------------------------------------------------------


def config_dict(cfg):
    d = {
        "evaluation_task": cfg["task"] + ("2d" if cfg.get("dim") == 2 else ""),
        "target_labels": list(cfg["target_labels"]),
        "label_prefix": "autoware",
        "merge_similar_labels": bool(cfg["merge"]),
    }
    rg = cfg["range"]
    if rg is None:
        pass   # camera world: no ego-relative range
    elif rg["kind"] == "xy":
        d["max_x_position"] = rg["max_x"]
        d["max_y_position"] = rg["max_y"]
    else:
        d["max_distance"] = rg["max"]
        d["min_distance"] = rg["min"]
    if cfg.get("policy"):
        d["matching_label_policy"] = cfg["policy"]
    elif cfg.get("allow_unknown_flag") is not None:
        d["allow_matching_unknown"] = bool(cfg.get("allow_unknown_flag"))
    if cfg.get("radii") is not None:
        d["max_matchable_radii"] = cfg["radii"]
    if cfg.get("min_pts") is not None:
        d["min_point_numbers"] = cfg["min_pts"]
    if cfg.get("conf_thr") is not None:
        d["confidence_threshold"] = cfg["conf_thr"]
    if cfg.get("ignore_attrs") is not None:
        d["ignore_attributes"] = list(cfg["ignore_attrs"])
    if cfg.get("target_uuids") is not None:
        d["target_uuids"] = list(cfg["target_uuids"])
    thr = cfg.get("thresholds", {})
    keymap = {"center": "center_distance_thresholds", "plane": "plane_distance_thresholds",
              "iou2d": "iou_2d_thresholds", "iou3d": "iou_3d_thresholds"}
    if cfg["task"] != "fp_validation":
        for k, name in keymap.items():
            if k in thr:
                d[name] = thr[k]
    return d


def make_crit(R, evaluator_config, spec):
    rg = spec["range"]
    kw = {}
    if rg is None:
        pass
    elif rg["kind"] == "xy":
        kw["max_x_position_list"] = list(rg["max_x"])
        kw["max_y_position_list"] = list(rg["max_y"])
    else:
        kw["max_distance_list"] = list(rg["max"])
        kw["min_distance_list"] = list(rg["min"])
    return R["CriticalObjectFilterConfig"](
        evaluator_config=evaluator_config,
        target_labels=list(spec["labels"]),
        ignore_attributes=spec.get("ignore_attrs"),
        min_point_numbers=spec.get("min_pts"),
        confidence_threshold_list=spec.get("conf_thr"),
        target_uuids=spec.get("target_uuids"),
        **kw,
    )


def make_pf(R, evaluator_config, spec):
    return R["PerceptionPassFailConfig"](
        evaluator_config=evaluator_config,
        target_labels=None if spec["labels"] is None else list(spec["labels"]),
        matching_threshold_list=None if spec.get("thr") is None else list(spec["thr"]),
    )


# ------------------------------------------------------------------------------------------------------
# records
# ------------------------------------------------------------------------------------------------------


class LaneAborted(Exception):
    """The lane cannot continue (e.g. the dataset failed to load); violations are already recorded."""


class Step:
    """One `deliver` operation as executed."""

    __slots__ = (
        "index", "op", "msg", "stamp", "lookup", "frame", "frame_kind", "frame_index", "ego_ref", "estimates",
        "est_info", "result", "calls", "exc", "exc_tb", "crit_spec", "pf_spec", "crit", "pf", "manager_gen",
        "n_results_before", "gt_snapshot", "est_digest_before", "digest", "eps",
    )

    def __init__(self):
        for s in self.__slots__:
            setattr(self, s, None)


class Monitor:
    """Callback interface; oracles subclass this.  Every callback may append to ctx.violations."""

    def on_load(self, ctx, lane, manager, generation):
        pass

    def on_lookup(self, ctx, lane, manager, query, frame):
        pass

    def on_step(self, ctx, lane, step):
        pass

    def on_scene(self, ctx, lane, manager, score, index):
        pass

    def on_analyze(self, ctx, lane, manager, op, index):
        pass

    def on_end(self, ctx, lane):
        pass


class Violation(dict):
    pass


class Ctx:
    """Per-run context shared by the executor and the oracles."""

    def __init__(self, plan, root):
        self.plan = plan
        self.root = root
        self.R = env.repo()
        self.violations = []
        self.probes = {}
        self.skips = {}
        self.events = []  # compact, JSON-able event log (for determinism digests)
        self.keepalive = []  # objects whose id() is used as a key must stay alive
        self.est_registry = {}  # id(DynamicObject) -> info
        self.dataset_written = {}
        self.samples = plan["world"]["samples"]
        self.sample_ts = [s["t"] for s in self.samples]
        self.actor_by_token = {a["token"]: (i, a) for i, a in enumerate(plan["world"]["actors"])}

    def probe(self, name, n=1):
        self.probes[name] = self.probes.get(name, 0) + n

    def skip(self, name, n=1):
        self.skips[name] = self.skips.get(name, 0) + n

    def violate(self, prop, clause, signature, detail=None, op_index=None):
        self.violations.append(
            Violation(property=prop, clause=clause, signature=signature, detail=detail or {}, op_index=op_index)
        )

    def ego_for_time(self, t):
        """World-truth ego pose at time t (samples exactly; linear/shortest-arc in between; clamped outside)."""
        from .plan import _ego_at

        return tuple(_ego_at(self.samples, t))


class Lane:
    """One evaluator instance being driven through the plan (main lane, or a twin)."""

    def __init__(self, ctx, name, frame=None, token_map=None, est_id_map=None, monitors=(), dataset_dir=None):
        self.ctx = ctx
        self.name = name
        self.frame = frame or ctx.plan["config"]["frame"]
        self.token_map = token_map
        self.est_id_map = est_id_map
        self.monitors = list(monitors)
        self.steps = []
        self.scene_scores = []
        self.manager = None
        self.generation = -1
        self.config = None
        self.dataset_dir = dataset_dir
        self.analyses = []
        self.lookups = []
        self.restarts = 0
        self.load_exc = None
        self.load_tb = None
        self._config_cache = {}
        self._estimate_cache = {}
        self.old_results = []  # frame results of earlier manager generations (one "scene" each)
        self.old_egos = []
        self.aborted = False

    # -- construction ---------------------------------------------------------------------------------
    def _dataset(self):
        ctx = self.ctx
        key = tuple(sorted((self.token_map or {}).items()))
        if key not in ctx.dataset_written:
            d = os.path.join(ctx.root, "ds%d" % len([n for n in os.listdir(ctx.root) if n.startswith("ds")]))
            st = dict(ctx.plan["storage"])
            if self.token_map:
                st["token_map"] = self.token_map
            storage_mod.write_dataset(d, ctx.plan["world"], st)
            ctx.dataset_written[key] = d
        return ctx.dataset_written[key]

    def build_manager(self):
        ctx, R = self.ctx, self.ctx.R
        d = self._dataset()
        cfg = dict(ctx.plan["config"])
        if self.token_map and cfg.get("target_uuids"):
            cfg["target_uuids"] = [self.token_map.get(u, u) for u in cfg["target_uuids"]]
        try:
            self.config = R["PerceptionEvaluationConfig"](
                dataset_paths=[d],
                frame_id=self._frame_id_argument(cfg),
                result_root_directory=os.path.join(ctx.root, "result_%s" % self.name),
                evaluation_config_dict=config_dict(cfg),
                load_raw_data=bool(ctx.plan["storage"].get("raw")),
            )
        except Exception as e:  # noqa
            # every generated configuration is a legal one: an exception escaping from repository code while it is
            # being taken in is reported under the property whose parameters that code handles
            from .oracles_step import attribute_exception

            tb = traceback.extract_tb(e.__traceback__)
            prop, sig = attribute_exception(tb, R["src"], "C13")
            if prop is None:
                raise
            ctx.violate(prop, "no_exception", "configuration rejected: " + sig % type(e).__name__, {"error": str(e)[:300]})
            raise LaneAborted("configuration rejected") from e
        try:
            self.manager = R["PerceptionEvaluationManager"](evaluation_config=self.config)
        except Exception as e:  # noqa
            self.load_exc = e
            self.load_tb = traceback.extract_tb(e.__traceback__)
            hit = innermost_repo_frame(self.load_tb, R["src"])
            ctx.violate("C16", "load_succeeds", "%s in %s" % (type(e).__name__, hit), {"error": str(e)[:300]})
            raise LaneAborted("dataset load failed") from e
        self.generation += 1
        for m in self.monitors:
            m.on_load(ctx, self, self.manager, self.generation)
        return self.manager

    def _frame_id_argument(self, cfg):
        fr = self.frame
        if isinstance(fr, list):
            fr = [f.upper() for f in fr] if cfg.get("frame_upper") else list(fr)
            return fr[0] if cfg.get("frame_single") and len(fr) == 1 else fr
        return fr.upper() if cfg.get("frame_upper") else fr

    def _hand_over(self, frame, mode):
        """The frame as the driver passes it on: the looked-up object itself, or a FrameGroundTruth built by the driver."""
        if mode == "as_is":
            return frame
        R = self.ctx.R
        mats = []
        for key, m in frame.transforms.items():
            if mode == "reverse" and key == (R["FrameID"].BASE_LINK, R["FrameID"].MAP):
                m = m.inv()   # ego pose registered as map -> base_link only
            mats.append(m)
        self.ctx.probe("frame_handed_over_" + mode)
        return R["FrameGroundTruth"](unix_time=frame.unix_time, frame_name=frame.frame_name, objects=list(frame.objects),
                                     transforms=mats, raw_data=frame.raw_data)

    def _config_object(self, kind, spec, maker):
        """Per-delivery configuration objects: rebuilt every time, or (plan flag) one object per distinct spec that is
        handed to every delivery using that spec, as a driver keeping its configs around would do."""
        import json as _json

        if not self.ctx.plan.get("reuse_configs"):
            return maker(self.ctx.R, self.config, spec)
        key = (kind, self.generation, _json.dumps(spec, sort_keys=True))
        if key not in self._config_cache:
            self._config_cache[key] = maker(self.ctx.R, self.config, spec)
        return self._config_cache[key]

    # -- estimates ------------------------------------------------------------------------------------
    def render_estimates(self, msg, ego_ref, stamp):
        """Build the real DynamicObject list for a message, expressed in this lane's frame."""
        ctx, R = self.ctx, self.ctx.R
        FrameID, Quaternion = R["FrameID"], R["Quaternion"]
        out, infos = [], []
        if ctx.plan["config"].get("dim") == 2:
            return self._render_estimates_2d(msg, stamp)
        for k, o in enumerate(msg["objects"]):
            frame = self.frame
            if o.get("frame_fault"):
                frame = "map" if frame == "base_link" else "base_link"
            pe = tuple(o["pose"])
            if frame == "map":
                pm = rm.pose_ego_to_map(ego_ref, pe)
                pos, yaw = (pm[0], pm[1], pm[2]), pm[3]
            else:
                pos, yaw = (pe[0], pe[1], pe[2]), pe[3]
            q = rm.q_from_yaw(yaw)
            uuid = o.get("uuid")
            if self.est_id_map and uuid is not None:
                uuid = self.est_id_map.get(uuid, uuid)
            obj = R["DynamicObject"](
                unix_time=int(stamp),
                frame_id=FrameID.MAP if frame == "map" else FrameID.BASE_LINK,
                position=(float(pos[0]), float(pos[1]), float(pos[2])),
                orientation=Quaternion(q[0], q[1], q[2], q[3]),
                shape=R["Shape"](R["ShapeType"].BOUNDING_BOX, tuple(float(v) for v in o["size"])),
                velocity=tuple(o["vel"]) if o.get("vel") else None,
                semantic_score=float(o["conf"]),
                semantic_label=self.config.label_converter.convert_label(o["label"], list(o.get("attrs", []))),
                uuid=uuid,
            )
            info = {"k": k, "mid": msg["mid"], "spec": o, "frame": frame, "ego_pose": pe, "lane": self.name}
            ctx.est_registry[id(obj)] = info
            ctx.keepalive.append(obj)
            out.append(obj)
            infos.append(info)
        return out, infos

    def _render_estimates_2d(self, msg, stamp):
        """Camera world: real DynamicObject2D detections (image ROI, camera frame id)."""
        ctx, R = self.ctx, self.ctx.R
        out, infos = [], []
        for k, o in enumerate(msg["objects"]):
            uuid = o.get("uuid")
            if self.est_id_map and uuid is not None:
                uuid = self.est_id_map.get(uuid, uuid)
            obj = R["DynamicObject2D"](
                unix_time=int(stamp),
                frame_id=R["FrameID"].from_value(o["cam"].lower()),
                semantic_score=float(o["conf"]),
                semantic_label=self.config.label_converter.convert_label(o["label"], list(o.get("attrs", []))),
                roi=tuple(int(v) for v in o["roi"]),
                uuid=uuid,
            )
            info = {"k": k, "mid": msg["mid"], "spec": o, "frame": o["cam"].lower(), "lane": self.name}
            ctx.est_registry[id(obj)] = info
            ctx.keepalive.append(obj)
            out.append(obj)
            infos.append(info)
        return out, infos

    # -- operations -----------------------------------------------------------------------------------
    def classify_frame(self, frame):
        """(kind, index): 'loaded' with its index in manager.ground_truth_frames, 'interp', or 'none'."""
        if frame is None:
            return "none", None
        for i, f in enumerate(self.manager.ground_truth_frames):
            if f is frame:
                return "loaded", i
        return "interp", None

    def do_lookup(self, t, tol, interp, index, pure=False):
        ctx = self.ctx
        query = {"t": int(t), "tol": int(tol), "interp": bool(interp), "index": index, "pure": pure}
        try:
            frame = self.manager.get_ground_truth_now_frame(int(t), int(tol), bool(interp))
            query["exc"] = None
        except Exception as e:  # noqa
            frame = None
            query["exc"] = e
            query["exc_tb"] = traceback.extract_tb(e.__traceback__)
        kind, idx = self.classify_frame(frame)
        query["kind"], query["frame_index"] = kind, idx
        for m in self.monitors:
            m.on_lookup(ctx, self, self.manager, query, frame)
        self.lookups.append((query, frame))
        return frame, query

    def do_deliver(self, op, index):
        global _CALL_LOG
        ctx, R = self.ctx, self.ctx.R
        plan = ctx.plan
        msg = plan["messages"][op["mid"]]
        lk = op.get("lookup") or plan["lookup"]
        st = Step()
        st.index, st.op, st.msg, st.stamp = index, op, msg, msg["stamp"]
        st.manager_gen = self.generation
        frame, query = self.do_lookup(msg["stamp"], lk["tol"], lk["interp"], index)
        st.lookup = query
        st.frame = frame
        st.frame_kind, st.frame_index = query["kind"], query["frame_index"]
        if frame is None:
            self.steps.append(st)
            ctx.events.append(["deliver", self.name, index, op["mid"], "no_frame"])
            return st
        if st.frame_kind == "loaded":
            st.ego_ref = tuple(ctx.samples[st.frame_index % len(ctx.samples)]["ego"])
            st.eps = 1e-6
        else:
            # the implementation interpolates the ego rotation with pyquaternion, which falls back to a normalised
            # linear blend for close quaternions (deviation from the proportional angle up to ~1e-6 rad); decisions
            # of such steps are judged with a correspondingly wider indeterminacy band
            st.ego_ref = ctx.ego_for_time(frame.unix_time)
            st.eps = 1e-5
        frame = self._hand_over(frame, plan.get("frame_handoff", "as_is"))
        st.frame = frame
        est_time = int(frame.unix_time) if plan.get("stamp_as_gt_time") else msg["stamp"]
        cache_key = (self.generation, op["mid"], st.frame_kind, st.frame_index, est_time)
        if plan.get("reuse_estimates") and cache_key in self._estimate_cache:
            st.estimates, st.est_info = self._estimate_cache[cache_key]
            ctx.probe("estimates_object_reused")
        else:
            st.estimates, st.est_info = self.render_estimates(msg, st.ego_ref, est_time)
            if st.frame_kind == "loaded":
                self._estimate_cache[cache_key] = (st.estimates, st.est_info)
        st.crit_spec = op.get("crit") or plan["crit_default"]
        st.pf_spec = op.get("pf") or plan["pf_default"]
        if self.token_map and st.crit_spec.get("target_uuids"):
            st.crit_spec = dict(st.crit_spec, target_uuids=[self.token_map.get(u, u) for u in st.crit_spec["target_uuids"]])
        st.crit = self._config_object("crit", st.crit_spec, make_crit)
        st.pf = self._config_object("pf", st.pf_spec, make_pf)
        st.n_results_before = len(self.manager.frame_results)
        st.gt_snapshot = list(frame.objects)
        est_before = list(st.estimates)
        st.est_digest_before = [V.obj_digest(o) for o in st.estimates]
        _CALL_LOG = []
        try:
            st.result = self.manager.add_frame_result(
                unix_time=int(msg["stamp"]),
                ground_truth_now_frame=frame,
                estimated_objects=st.estimates,
                critical_object_filter_config=st.crit,
                frame_pass_fail_config=st.pf,
            )
        except Exception as e:  # noqa
            st.exc = e
            st.exc_tb = traceback.extract_tb(e.__traceback__)
        finally:
            st.calls = _CALL_LOG
            _CALL_LOG = None
        st_est_same = len(est_before) == len(st.estimates) and all(a is b for a, b in zip(est_before, st.estimates))
        if not st_est_same:
            ctx.violate("C13", "no_mutation_estimates", "estimate list changed by add_frame_result", {}, index)
        self.steps.append(st)
        for m in self.monitors:
            m.on_step(ctx, self, st)
        return st

    def do_scene(self, index):
        ctx = self.ctx
        frames_before = list(self.manager.frame_results)
        try:
            score = self.manager.get_scene_result()
            exc = None
        except Exception as e:  # noqa
            score, exc = None, e
        self.scene_scores.append({"index": index, "score": score, "exc": exc, "n_frames": len(self.manager.frame_results),
                                  "gen": self.generation, "frames_before": frames_before,
                                  "delivered": [st.result for st in self.steps if st.result is not None and st.manager_gen == self.generation],
                                  "tb": traceback.extract_tb(exc.__traceback__) if exc is not None else None})
        for m in self.monitors:
            m.on_scene(ctx, self, self.manager, self.scene_scores[-1], index)
        return score

    def do_restart(self, index):
        self.restarts += 1
        self.old_results.append(list(self.manager.frame_results))
        self.old_egos.append([(st.ego_ref, st.frame_kind == "loaded") for st in self.steps
                              if st.result is not None and st.manager_gen == self.generation])
        self.build_manager()

    def do_analyze(self, op, index):
        for m in self.monitors:
            m.on_analyze(self.ctx, self, self.manager, op, index)

    def run(self, ops=None):
        try:
            return self._run(ops)
        except LaneAborted:
            self.aborted = True
            return self

    def begin(self):
        _install_wrappers()
        self.build_manager()

    def do_op(self, index, op):
        kind = op["op"]
        if kind == "deliver":
            self.do_deliver(op, index)
        elif kind == "scene_query":
            self.do_scene(index)
        elif kind == "restart":
            self.do_restart(index)
        elif kind == "analyze":
            self.do_analyze(op, index)
        else:
            raise ValueError("unknown op %r" % (kind,))

    def _run(self, ops=None):
        plan = self.ctx.plan
        self.begin()
        for index, op in enumerate(plan["ops"] if ops is None else ops):
            self.do_op(index, op)
        if ops is None:
            for q in plan.get("lookups", []):
                self.do_lookup(q["t"], q["tol"], q["interp"], None, pure=True)
        for m in self.monitors:
            m.on_end(self.ctx, self)
        return self


def innermost_repo_frame(tb, src):
    """(file basename, function) of the innermost traceback frame that lies inside the repository."""
    hit = None
    for fr in tb or []:
        fn = os.path.realpath(fr.filename)
        if fn.startswith(src):
            hit = (os.path.relpath(fn, src), fr.name, fr.lineno)
    return hit


def new_scratch(tag):
    base = env.scratch_base()
    d = os.path.join(base, "%s-%d" % (tag, os.getpid()))
    if os.path.isdir(d):
        shutil.rmtree(d, ignore_errors=True)
    os.makedirs(d)
    return d


def pickle_roundtrip(obj):
    return pickle.loads(pickle.dumps(obj))
