"""C19: the analysis table vs the recorded history handed over through the pickle result store."""
import math

from . import executor as X
from . import reference as ref
from . import refmath as rm
from . import views as V

TOL = 1e-6


def _isnull(v):
    if v is None:
        return True
    try:
        return v != v
    except Exception:  # noqa
        return False


def ref_area(x, y, div, max_x, max_y):
    """(index or None, near_boundary) of the 1 / 3 / 9 division grid described in the analyzer's documentation."""
    def band(v, m):
        # 0: upper third, 1: middle, 2: lower third; None: outside
        edges = [m, m / 3.0, -m / 3.0, -m]
        nearb = any(abs(v - e) < 1e-6 * max(1.0, abs(e)) for e in edges)
        if not (-m < v < m):
            return None, nearb
        if v > m / 3.0:
            return 0, nearb
        if v > -m / 3.0:
            return 1, nearb
        return 2, nearb

    bx, nx = band(x, max_x)
    by, ny = band(y, max_y)
    if div == 1:
        nearb = any(abs(abs(v) - m) < 1e-6 * max(1.0, m) for v, m in ((x, max_x), (y, max_y)))
        return (0 if (-max_x < x < max_x and -max_y < y < max_y) else None), nearb
    if div == 3:
        nearb = nx or abs(abs(y) - max_y) < 1e-6 * max(1.0, max_y)
        if bx is None or not (-max_y < y < max_y):
            return None, nearb
        return bx, nearb
    if bx is None or by is None:
        return None, nx or ny
    # documented picture for 9 divisions: max_x_position runs horizontally, max_y_position vertically,
    # cells numbered row by row -> row = y band (left first), column = x band (front first)
    return by * 3 + bx, nx or ny


def lane_scenes(lane):
    """(scenes, egos): the frame results of every manager generation of a lane with the world-truth ego pose of each."""
    all_scenes = lane.old_results + [list(lane.manager.frame_results)]
    egos = lane.old_egos + [[(st.ego_ref, st.frame_kind == "loaded") for st in lane.steps
                             if st.result is not None and st.manager_gen == lane.generation]]
    keep = [i for i, s in enumerate(all_scenes) if s]
    return [all_scenes[i] for i in keep], [egos[i] for i in keep]


class C19Monitor(X.Monitor):
    def on_analyze(self, ctx, lane, manager, op, index):
        scenes, egos = lane_scenes(lane)
        check_tables(ctx, lane, scenes, egos, op.get("div", 1), index)


def check_tables(ctx, lane, scenes, egos, div, index):
    if True:
        R = ctx.R
        cfg = ctx.plan["config"]
        rg = cfg["range"]
        if rg["kind"] == "xy" and (isinstance(rg["max_x"], list) or isinstance(rg["max_y"], list)):
            ctx.skip("c19_per_label_range")  # the analyzer's area grid is defined for scalar bounds only
            return
        tl = [l.value for l in lane.config.target_labels]
        if len(set(tl)) != len(tl):
            ctx.skip("c19_duplicate_target_labels")  # the analyzer indexes its summary tables by label
            return
        if not scenes:
            ctx.skip("c19_nothing_to_analyze")
            return
        from perception_eval.tool import PerceptionAnalyzer3D
        from perception_eval.evaluation.result.perception_frame_result import get_object_status

        # ---- hand-over through the result store ------------------------------------------------------
        try:
            stored = [X.pickle_roundtrip(s) for s in scenes]
        except Exception as e:  # noqa
            ctx.violate("C19", "result_store", "frame results cannot be pickled: %s" % type(e).__name__, {"error": str(e)[:200]}, index)
            return
        try:
            an = PerceptionAnalyzer3D(lane.config, num_area_division=div)
            # every other analysis runs on a recycled analyzer: it has tabulated a scene before and was cleared (add, clear, add).
            # What it holds afterwards is what was added since.  (A function of the history, not a draw: replays exactly.)
            if (len(scenes[0]) + len(scenes) + (index or 0)) % 2 == 0:
                an.add(X.pickle_roundtrip(scenes[0]))
                an.clear()
                ctx.probe("c19_recycled_analyzer")
            for s in stored:
                an.add(s)
        except Exception as e:  # noqa
            hit = X.innermost_repo_frame(__import__("traceback").extract_tb(e.__traceback__), R["src"])
            ctx.violate("C19", "no_exception", "%s while building the table in %s" % (type(e).__name__, hit), {"error": str(e)[:200]}, index)
            return
        ctx.probe("c19_analyses")
        if len(stored) > 1:
            ctx.probe("c19_multi_scene")
        df = an.df
        max_x = cfg["range"]["max_x"] if rg["kind"] == "xy" else 100.0
        max_y = cfg["range"]["max_y"] if rg["kind"] == "xy" else 100.0

        # ---- expected rows, in the order the table is documented to hold them ------------------------
        rows = []  # (scene, frame_num, status, gt, est, ego_ref)
        n = {"TP": 0, "FP": 0, "TN": 0, "FN": 0}
        n_est = n_gt_critical = 0
        fp_with_ordinary_gt = 0
        for si, (frs, eg) in enumerate(zip(stored, egos)):
            for fr, (ego, exact) in zip(frs, eg):
                ego = tuple(ego) + (exact,)
                pf = fr.pass_fail_result
                fnum = int(fr.frame_name)
                for r in pf.tp_object_results:
                    rows.append((si, fnum, "TP", r.ground_truth_object, r.estimated_object, ego, r))
                for r in pf.fp_object_results:
                    rows.append((si, fnum, "FP", r.ground_truth_object, r.estimated_object, ego, r))
                    if r.ground_truth_object is not None and V.label_of(r.ground_truth_object) != "false_positive":
                        fp_with_ordinary_gt += 1
                for g in pf.tn_objects:
                    rows.append((si, fnum, "TN", g, None, ego, g))
                for g in pf.fn_objects:
                    rows.append((si, fnum, "FN", g, None, ego, g))
                n["TP"] += len(pf.tp_object_results)
                n["FP"] += len(pf.fp_object_results)
                n["TN"] += len(pf.tn_objects)
                n["FN"] += len(pf.fn_objects)
                n_est += len(pf.tp_object_results) + len(pf.fp_object_results)
                n_gt_critical += len(fr.frame_ground_truth.objects)
        if fp_with_ordinary_gt:
            ctx.probe("fp_with_gt_in_table")

        # ---- counts ----------------------------------------------------------------------------------
        if len(df) == 0 and rows:
            ctx.violate("C19", "status_counts", "the table is empty although the frames hold %d items" % len(rows), {}, index)
            return
        if len(df) == 0:
            ctx.skip("c19_empty_table")  # the count accessors are not defined on an empty table
            return
        got = {"TP": an.num_tp, "FP": an.num_fp, "TN": an.num_tn, "FN": an.num_fn}
        for k in ("TP", "FP", "TN", "FN"):
            if int(got[k]) != n[k]:
                ctx.violate("C19", "status_counts", "table holds %d %s rows, the frames' pass/fail lists hold %d" % (got[k], k, n[k]), {}, index)
        # the same counts through the generic accessor
        for k in ("TP", "FP", "TN", "FN"):
            try:
                via = int(an.get_status_num(status=k))
            except Exception as e:  # noqa
                ctx.violate("C19", "status_counts", "get_status_num(status=%s) raised %s" % (k, type(e).__name__), {}, index)
                continue
            if via != n[k]:
                ctx.violate("C19", "status_counts", "get_status_num(status=%s) gives %d, the frames' pass/fail lists hold %d" % (k, via, n[k]), {}, index)
        if int(an.num_estimation) != n_est:
            ctx.violate("C19", "estimate_count", "table counts %d estimates, %d were evaluated" % (an.num_estimation, n_est), {}, index)
        if int(an.num_ground_truth) != n_gt_critical:
            explained = int(an.num_ground_truth) == n_gt_critical + fp_with_ordinary_gt and fp_with_ordinary_gt > 0
            ctx.violate("C19", "gt_count_equals_critical",
                        "table counts %d ground truths, the frames hold %d critical ones" % (an.num_ground_truth, n_gt_critical),
                        {"fp_results_with_ordinary_gt": fp_with_ordinary_gt,
                         "explained_by_fp_with_gt_double_count": explained}, index)
        if len(df) != 2 * len(rows):
            ctx.violate("C19", "row_pairs", "table holds %d rows for %d items" % (len(df), len(rows)), {}, index)
            return

        # ---- row content ------------------------------------------------------------------------------
        err = {"x": [], "y": [], "yaw": []}
        err_exact = []
        paired = 0
        bad_row = False
        for i, (si, fnum, status, g, e, ego5, src) in enumerate(rows):
            ego, ego_exact = ego5[:4], ego5[4]
            try:
                gr = df.loc[(i, "ground_truth")]
                er = df.loc[(i, "estimation")]
            except KeyError:
                ctx.violate("C19", "row_pairs", "row pair %d is missing from the table" % i, {}, index)
                return
            for role, obj, row in (("ground_truth", g, gr), ("estimation", e, er)):
                if obj is None:
                    if not _isnull(row["status"]):
                        ctx.violate("C19", "row_pairs", "%s row of a %s item without %s is filled" % (role, status, role), {}, index)
                        bad_row = True
                    continue
                if str(row["status"]) != status or int(row["frame"]) != fnum or int(row["scene"]) != si:
                    ctx.violate("C19", "row_pairs", "row %d is (%s, frame %s, scene %s), expected (%s, %d, %d)" %
                                (i, row["status"], row["frame"], row["scene"], status, fnum, si), {}, index)
                    bad_row = True
                    continue
                p = V.ego_pos(obj, ego)
                yaw = rm.q_yaw(V.quat_of(obj)) - (ego[3] if V.frame_of(obj) != "base_link" else 0.0)
                tol = TOL if ego_exact else 1e-4  # interpolated frames: see executor.Step.eps
                if abs(row["x"] - p[0]) > tol * max(1.0, abs(p[0])) or abs(row["y"] - p[1]) > tol * max(1.0, abs(p[1])) \
                        or abs(rm.wrap(row["yaw"] - yaw)) > max(tol, 5e-6):
                    ctx.violate("C19", "rows_in_ego_frame", "%s row of a %s item is not the object's ego-frame pose (%s lane)" % (role, status, lane.frame),
                                {"row": [float(row["x"]), float(row["y"]), float(row["yaw"])], "want": [p[0], p[1], rm.wrap(yaw)]}, index)
                    bad_row = True
                if str(row["label"]) != V.label_of(obj) or row["uuid"] != obj.uuid:
                    ctx.violate("C19", "row_pairs", "%s row carries label/uuid (%s, %s) of another object" % (role, row["label"], row["uuid"]), {}, index)
                    bad_row = True
                # area index
                pa = V.ego_pos(e if hasattr(src, "estimated_object") else obj, ego)
                want_area, nearb = ref_area(pa[0], pa[1], div, max_x, max_y)
                if nearb:
                    ctx.skip("boundary_skipped")
                else:
                    got_area = None if _isnull(row["area"]) else int(row["area"])
                    if got_area != want_area:
                        ctx.violate("C19", "area_index", "area %r, the %d-division grid gives %r" % (got_area, div, want_area),
                                    {"x": pa[0], "y": pa[1], "max_x": max_x, "max_y": max_y}, index)
                        bad_row = True
            if g is not None and e is not None and status in ("TP", "FP", "TN"):
                paired += 1
                pg, pe = V.ego_pos(g, ego), V.ego_pos(e, ego)
                err["x"].append(pg[0] - pe[0])
                err["y"].append(pg[1] - pe[1])
                err["yaw"].append(rm.wrap(rm.q_yaw(V.quat_of(g)) - rm.q_yaw(V.quat_of(e))))
                err_exact.append(ego_exact)
            if bad_row:
                return
        ctx.probe("c19_rows", len(rows))
        if paired:
            ctx.probe("c19_nontrivial")

        # ---- errors and summaries ---------------------------------------------------------------------
        for col in ("x", "y", "yaw"):
            try:
                got_err = [float(v) for v in an.calculate_error(col)]
            except Exception as ex:  # noqa
                ctx.violate("C19", "errors_are_differences", "calculate_error(%s) raised %s" % (col, type(ex).__name__), {}, index)
                continue
            want = err[col]
            if len(got_err) != len(want):
                ctx.violate("C19", "errors_are_differences", "%d %s-errors for %d paired rows" % (len(got_err), col, len(want)), {}, index)
                continue
            for a, b, exact in zip(got_err, want, err_exact):
                d = rm.wrap(a - b) if col == "yaw" else a - b
                # rows of an interpolated frame: the frame's own ego rotation deviates ~1e-6 rad from the proportional one
                if abs(d) > (1e-6 if exact else 1e-4) * max(1.0, abs(b)):
                    # yaw exactly +-pi may legitimately come out with either sign
                    ctx.violate("C19", "errors_are_differences", "%s error %r, ground truth minus estimate is %r" % (col, a, b), {}, index)
                    break
                if col == "yaw" and not (-math.pi - 1e-9 <= a <= math.pi + 1e-9):
                    ctx.violate("C19", "errors_are_differences", "yaw error %r outside [-pi, pi]" % a, {}, index)
                    break
        try:
            result = an.analyze()
        except Exception as ex:  # noqa
            hit = X.innermost_repo_frame(__import__("traceback").extract_tb(ex.__traceback__), R["src"])
            ctx.violate("C19", "no_exception", "analyze() raised %s in %s" % (type(ex).__name__, hit), {"error": str(ex)[:200],
                        "fp_labelled_gt_paired": any(g is not None and e is not None and V.label_of(g) == "false_positive" for _, _, _, g, e, _, _ in rows)}, index)
            return
        def expected_errors(select):
            """{label or 'ALL': {col: [errors]}} over the paired TP/FP/TN rows chosen by select(row tuple)."""
            out = {"ALL": {"x": [], "y": [], "yaw": []}}
            for row in rows:
                si_, fnum_, status_, g_, e_, ego5_, _src = row
                if g_ is None or e_ is None or status_ not in ("TP", "FP", "TN") or not select(row):
                    continue
                ego_ = ego5_[:4]
                pg, pe = V.ego_pos(g_, ego_), V.ego_pos(e_, ego_)
                vals = {"x": pg[0] - pe[0], "y": pg[1] - pe[1], "yaw": rm.wrap(rm.q_yaw(V.quat_of(g_)) - rm.q_yaw(V.quat_of(e_)))}
                for key in ("ALL", V.label_of(g_)):
                    d_ = out.setdefault(key, {"x": [], "y": [], "yaw": []})
                    for c_ in vals:
                        d_[c_].append(vals[c_])
            return out

        def check_error_table(table, want_by_label, what):
            for lab in an.all_labels:
                for col in ("x", "y", "yaw"):
                    want = want_by_label.get(lab, {}).get(col, [])
                    try:
                        row = table.loc[(str(lab), col)]
                    except KeyError:
                        ctx.violate("C19", "summaries", "%s: error summary lacks (%s, %s)" % (what, lab, col), {}, index)
                        continue
                    if not want:
                        if not _isnull(row["average"]):
                            ctx.violate("C19", "summaries", "%s: %s error of label %s is %r although no paired row of that label is selected" %
                                        (what, col, lab, float(row["average"])), {}, index)
                        continue
                    # yaw differences exactly at +-pi may come out with either sign: skip those summaries
                    if col == "yaw" and any(abs(abs(v) - math.pi) < 1e-6 for v in want):
                        continue
                    mean = sum(want) / len(want)
                    rms = math.sqrt(sum(v * v for v in want) / len(want))
                    mx = max(abs(v) for v in want)
                    for name, w in (("average", mean), ("rms", rms), ("max", mx)):
                        if _isnull(row[name]) or abs(float(row[name]) - w) > (1e-6 if all(err_exact) else 1e-4) * max(1.0, abs(w)):
                            ctx.violate("C19", "summaries", "%s: %s of the %s error for %s is %r, the paired rows give %r" %
                                        (what, name, col, lab, row[name], w), {}, index)
                            return

        if result.error is not None and paired:
            check_error_table(result.error, expected_errors(lambda row: True), "all rows")
            ctx.probe("c19_per_label_summaries")
        if len(stored) >= 2:
            k = len(stored) - 1
            try:
                sel = an.analyze(scene=k)
            except Exception as ex:  # noqa
                hit = X.innermost_repo_frame(__import__("traceback").extract_tb(ex.__traceback__), R["src"])
                if hit is None:
                    raise
                ctx.violate("C19", "no_exception", "analyze(scene=%d) raised %s in %s" % (k, type(ex).__name__, hit), {"error": str(ex)[:200]}, index)
                sel = None
            if sel is not None and sel.error is not None:
                check_error_table(sel.error, expected_errors(lambda row: row[0] == k), "scene selection")
                ctx.probe("c19_scene_selected_summaries")
        if result.score is not None:
            for col in ("TP", "FP", "TN", "FN"):
                if col in result.score.columns:
                    for v in result.score[col]:
                        if not (-1e-12 <= float(v) <= 1.0 + 1e-12):
                            cross = any(st == "TP" and g is not None and e is not None and V.label_of(g) != V.label_of(e)
                                        for _, _, st, g, e, _, _ in rows)
                            ctx.violate("C19", "rates_in_unit_interval", "%s rate %r outside [0,1]" % (col, float(v)),
                                        {"explained_by_cross_label_tp_pairs": bool(cross and col == "TP")}, index)
                            break
        if result.confusion_matrix is not None:
            total = int(result.confusion_matrix.to_numpy().sum())
            n_pairs = sum(1 for _, _, _, g, e, _, _ in rows if g is not None and e is not None)
            if total != n_pairs:
                ctx.violate("C19", "confusion_sum", "confusion matrix sums to %d, %d rows are paired" % (total, n_pairs), {}, index)
        elif any(g is not None and e is not None for _, _, _, g, e, _, _ in rows):
            ctx.violate("C19", "confusion_sum", "no confusion matrix although paired rows exist", {}, index)

        # ---- selections ------------------------------------------------------------------------------
        labels = sorted(set(V.label_of(g) for _, _, _, g, _, _, _ in rows if g is not None))
        for lab in labels[:3]:
            want = sum(1 for _, _, _, g, _, _, _ in rows if g is not None and V.label_of(g) == lab)
            got_n = an.get_num_ground_truth(label=lab)
            if int(got_n) != want:
                ctx.violate("C19", "selection", "label selection %s returns %d ground-truth rows, the table holds %d" % (lab, got_n, want), {}, index)
        for si in range(len(stored)):
            want = 2 * sum(1 for r in rows if r[0] == si)
            sub = an.get(scene=si)
            if len(sub) != want:
                ctx.violate("C19", "selection", "scene selection %d returns %d rows, expected %d" % (si, len(sub), want), {}, index)

        # area and distance selections: a pair is selected when either of its rows satisfies the criterion
        try:
            areas = {}
            for i in range(len(rows)):
                vals = set()
                for role in ("ground_truth", "estimation"):
                    a = df.loc[(i, role)]["area"]
                    if not _isnull(a):
                        vals.add(int(a))
                for a in vals:
                    areas[a] = areas.get(a, 0) + 1
            area_ids = {}
            for i in range(len(rows)):
                for role in ("ground_truth", "estimation"):
                    a = df.loc[(i, role)]["area"]
                    if not _isnull(a):
                        area_ids.setdefault(int(a), set()).add(i)
            for a, cnt in sorted(areas.items())[:3]:
                sub = an.get(area=a)
                got_ids = set(int(v) for v in sub.index.get_level_values(0))
                if len(sub) != 2 * cnt or got_ids != area_ids[a]:
                    ctx.violate("C19", "selection", "area selection %d returns %d rows (pairs %s), the pairs lying in that area are %s" %
                                (a, len(sub), sorted(got_ids)[:8], sorted(area_ids[a])[:8]), {}, index)
            # label selection through the generic filter: the pairs one of whose rows carries the label
            lab_ids = {}
            for i in range(len(rows)):
                for role in ("ground_truth", "estimation"):
                    lv = df.loc[(i, role)]["label"]
                    if not _isnull(lv):
                        lab_ids.setdefault(str(lv), set()).add(i)
            for lv, ids in sorted(lab_ids.items())[:3]:
                sub = an.get(label=lv)
                got_ids = set(int(v) for v in sub.index.get_level_values(0))
                if got_ids != ids or len(sub) != 2 * len(ids):
                    ctx.violate("C19", "selection", "label selection %s returns pairs %s, the pairs carrying that label are %s" %
                                (lv, sorted(got_ids)[:8], sorted(ids)[:8]), {}, index)
            dists = sorted(float(df.loc[(i, role)]["distance"]) for i in range(len(rows)) for role in ("ground_truth", "estimation")
                           if not _isnull(df.loc[(i, role)]["distance"]))
            bands = []
            if len(dists) >= 2 and dists[0] < dists[-1]:
                bands.append((dists[0], (dists[0] + dists[-1]) / 2.0))
                # a band whose lower bound separates the two rows of one pair
                for i in range(len(rows)):
                    dg, de = df.loc[(i, "ground_truth")]["distance"], df.loc[(i, "estimation")]["distance"]
                    if not _isnull(dg) and not _isnull(de) and abs(float(dg) - float(de)) > 1e-3:
                        bands.append(((float(dg) + float(de)) / 2.0, dists[-1] + 1.0))
                        break
            for lo, hi in bands:
                if lo < hi and not any(abs(d - hi) < 1e-9 or abs(d - lo) < 1e-9 for d in dists):
                    want_ids = set(i for i in range(len(rows)) if any(
                        (not _isnull(df.loc[(i, role)]["distance"])) and lo <= float(df.loc[(i, role)]["distance"]) < hi
                        for role in ("ground_truth", "estimation")))
                    want = len(want_ids)
                    sub = an.filter_by_distance((lo, hi))
                    got_ids = set(int(v) for v in sub.index.get_level_values(0))
                    if len(sub) != 2 * want or got_ids != want_ids:
                        ctx.violate("C19", "selection", "distance selection [%g, %g) returns %d rows (pairs %s), qualifying pairs are %s" %
                                    (lo, hi, len(sub), sorted(got_ids)[:8], sorted(want_ids)[:8]), {}, index)
                    ctx.probe("c19_distance_selection")
        except Exception as ex:  # noqa
            hit = X.innermost_repo_frame(__import__("traceback").extract_tb(ex.__traceback__), R["src"])
            if hit is None:
                raise
            ctx.violate("C19", "selection", "selection raised %s in %s" % (type(ex).__name__, hit), {"error": str(ex)[:200]}, index)

        # ---- per-object status tallies ------------------------------------------------------------------
        for si, frs in enumerate(stored):
            try:
                statuses = get_object_status(frs)
            except Exception as ex:  # noqa
                ctx.violate("C19", "object_status_once", "get_object_status raised %s" % type(ex).__name__, {}, index)
                continue
            want_cnt, dbl = {}, {}
            for fr in frs:
                fnum = int(fr.frame_name)
                for g in fr.frame_ground_truth.objects:
                    want_cnt[(g.uuid, fnum)] = want_cnt.get((g.uuid, fnum), 0) + 1
                for r in fr.pass_fail_result.fp_object_results:
                    g = r.ground_truth_object
                    if g is not None and V.label_of(g) != "false_positive":
                        dbl[(g.uuid, fnum)] = dbl.get((g.uuid, fnum), 0) + 1
            # per-status tallies: exactly the frames in which the pass/fail lists hold that ground truth with that status
            want_status = {}
            for fr in frs:
                fnum = int(fr.frame_name)
                pf_ = fr.pass_fail_result
                for r in pf_.tp_object_results:
                    want_status.setdefault(r.ground_truth_object.uuid, {"TP": [], "FP": [], "TN": [], "FN": []})["TP"].append(fnum)
                for r in pf_.fp_object_results:
                    if r.ground_truth_object is not None:
                        want_status.setdefault(r.ground_truth_object.uuid, {"TP": [], "FP": [], "TN": [], "FN": []})["FP"].append(fnum)
                for g in pf_.tn_objects:
                    want_status.setdefault(g.uuid, {"TP": [], "FP": [], "TN": [], "FN": []})["TN"].append(fnum)
                for g in pf_.fn_objects:
                    want_status.setdefault(g.uuid, {"TP": [], "FP": [], "TN": [], "FN": []})["FN"].append(fnum)
            got_status = {s.uuid: {"TP": sorted(s.tp_frame_nums), "FP": sorted(s.fp_frame_nums), "TN": sorted(s.tn_frame_nums),
                                   "FN": sorted(s.fn_frame_nums)} for s in statuses}
            for u, w in want_status.items():
                w = {k: sorted(v) for k, v in w.items()}
                if got_status.get(u) != w:
                    ctx.violate("C19", "object_status_tallies", "status frames of a ground truth differ from the frames' pass/fail lists",
                                {"got": got_status.get(u), "want": w}, index)
                    break
            if set(got_status) - set(want_status):
                ctx.violate("C19", "object_status_tallies", "a status record exists for a ground truth that is in no pass/fail list", {}, index)
            seen_uuid = set()
            for s in statuses:
                if s.uuid in seen_uuid:
                    ctx.violate("C19", "object_status_once", "a ground truth has two status records", {}, index)
                seen_uuid.add(s.uuid)
                for fnum in set(s.total_frame_nums):
                    c = s.total_frame_nums.count(fnum)
                    w = want_cnt.get((s.uuid, fnum), 0)
                    if c != w:
                        explained = c == w + dbl.get((s.uuid, fnum), 0) and dbl.get((s.uuid, fnum), 0) > 0
                        ctx.violate("C19", "object_status_once", "a ground truth is recorded %d times in a frame it is critical in %d time(s)" % (c, w),
                                    {"explained_by_fp_with_gt_double_count": explained}, index)
                        break
