"""History / relational oracles: C13 (pooling, history independence), C05 (CLEAR), C07 (frame twins), C08 (looser
pass/fail twin).  Twins are additional lanes executed from the same plan (or a plan derived from it by a pure
function), so everything stays a deterministic function of the plan."""
import copy
import math

from . import digest as D
from . import executor as X
from . import oracles_step as OS
from . import reference as ref
from . import refmath as rm
from . import views as V

EPS = ref.EPS_REL
INF = float("inf")


# ------------------------------------------------------------------------------------------------------
# C13: invariants during the run
# ------------------------------------------------------------------------------------------------------


def check_gt_from_this_frame(ctx, st):
    """The ground truth a frame result is built on must consist of objects of the very frame that was handed in."""
    if st.result is None or st.gt_snapshot is None:
        return True
    mine = set(id(o) for o in st.gt_snapshot)
    used = list(st.result.frame_ground_truth.objects) + [r.ground_truth_object for r in st.result.object_results
                                                          if r.ground_truth_object is not None]
    foreign = [g for g in used if id(g) not in mine]
    if foreign:
        # an implementation may legitimately work on copies: then the copies must be equal in value to objects of the frame
        values = set(V.obj_digest(o) for o in st.gt_snapshot)
        foreign = [g for g in foreign if V.obj_digest(g) not in values]
    if foreign:
        ctx.violate("C13", "gt_from_this_frame", "a frame result is built on ground-truth objects that do not belong to the frame handed to add_frame_result",
                    {"frame_objects": len(st.gt_snapshot), "used": len(used)}, st.index)
        return False
    return True


class C13Monitor(X.Monitor):
    def __init__(self):
        self.snapshots = {}

    def on_load(self, ctx, lane, manager, generation):
        self.snapshots[(lane.name, generation)] = (
            [V.frame_digest(f) for f in manager.ground_truth_frames],
            [list(f.objects) for f in manager.ground_truth_frames],
        )

    def _check_dataset(self, ctx, lane, index, what):
        dig, ident = self.snapshots[(lane.name, lane.generation)]
        frames = lane.manager.ground_truth_frames
        if len(frames) != len(dig):
            ctx.violate("C13", "no_mutation_dataset", "number of loaded frames changed after %s" % what, {}, index)
            return
        for i, f in enumerate(frames):
            objs = f.objects
            if len(objs) != len(ident[i]) or any(a is not b for a, b in zip(objs, ident[i])):
                ctx.violate("C13", "no_mutation_dataset", "objects of a loaded ground-truth frame changed after %s" % what,
                            {"frame": i, "before": len(ident[i]), "after": len(objs)}, index)
                return
            if V.frame_digest(f) != dig[i]:
                ctx.violate("C13", "no_mutation_dataset", "content of a loaded ground-truth frame changed after %s" % what, {"frame": i}, index)
                return

    def on_step(self, ctx, lane, st):
        if st.frame is None:
            return
        ctx.probe("c13_steps")
        check_gt_from_this_frame(ctx, st)
        now = [V.obj_digest(o) for o in st.estimates]
        if now != st.est_digest_before:
            ctx.violate("C13", "no_mutation_estimates", "an estimated object was modified by add_frame_result", {}, st.index)
        self._check_dataset(ctx, lane, st.index, "add_frame_result")
        if st.frame_kind == "loaded" and st.result is not None:
            # how many objects the critical filter removed: the history-dependence of the unfixed code needs this
            if len(st.result.frame_ground_truth.objects) < len(st.gt_snapshot):
                ctx.probe("filter_removed_gt")

    def on_lookup(self, ctx, lane, manager, query, frame):
        if query.get("pure"):
            self._check_dataset(ctx, lane, None, "a lookup")

    def on_scene(self, ctx, lane, manager, rec, index):
        score = rec["score"]
        if score is None:
            return
        ctx.probe("c13_scene_queries")
        frames = rec["delivered"]  # the frame results in the order the driver delivered them (own record)
        n_before = rec["n_frames"]
        now = manager.frame_results
        if len(now) != len(rec["frames_before"]) or any(a is not b for a, b in zip(now, rec["frames_before"])):
            ctx.violate("C13", "scene_query_pure", "a scene query changed or re-ordered the manager's frame results", {}, index)
        self._check_dataset(ctx, lane, index, "get_scene_result")
        # scene_query_pure: asking twice gives the same numbers and leaves the history alone
        try:
            again = manager.get_scene_result()
        except Exception as e:  # noqa
            ctx.violate("C13", "scene_query_pure", "second get_scene_result raised %s" % type(e).__name__, {}, index)
            return
        d = D.diff(D.metrics_digest(score), D.metrics_digest(again), 1e-12)
        if d:
            ctx.violate("C13", "scene_query_pure", "two consecutive scene queries disagree", {"diff": d}, index)
        if len(manager.frame_results) != n_before:
            ctx.violate("C13", "scene_query_pure", "scene query changed the number of frame results", {}, index)
        labels = [l.value for l in lane.config.target_labels]
        # gt_counts_add
        total = 0
        gt_counts = {}
        for fr in frames:
            for g in fr.frame_ground_truth.objects:
                lab = V.label_of(g)
                gt_counts[lab] = gt_counts.get(lab, 0) + 1
                if lab in labels:
                    total += 1
        has_metrics = bool(score.maps) or bool(score.tracking_scores)
        if has_metrics and score.num_ground_truth != total:
            ctx.violate("C13", "gt_counts_add", "scene counts %d ground truths, the frames hold %d" % (score.num_ground_truth, total), {}, index)
        # scene_equals_pool (detection part; the tracking part is C05's accumulator check run under C13's name)
        policy = V.plan_policy(ctx.plan["config"])   # as configured by the plan
        for m in score.maps:
            OS.check_map(ctx, lane.name, index, m, [fr.object_results for fr in frames], gt_counts, policy, "scene",
                         prop="C13", cp="scene_equals_pool:")
        if score.tracking_scores:
            check_clear_scores(ctx, lane, index, score.tracking_scores, [[]] + [fr.object_results for fr in frames], gt_counts,
                               labels, policy, "scene", prop="C13", cp="scene_equals_pool:")
        # the statement, literally: the scene score equals the score computed (with the library's own metric classes) from
        # the pooled per-frame object results -- pooled here by the harness, in delivery order, each frame's results in
        # the order the frame result holds them
        if has_metrics and frames:
            try:
                from perception_eval.evaluation.metrics import MetricsScore

                tls = list(lane.config.target_labels)
                pooled = {l: [[]] for l in tls}
                num_gt = {l: 0 for l in tls}
                for fr in frames:
                    by_label = {l: [] for l in pooled}
                    for r in fr.object_results:
                        b = OS.bucket_of(r, labels)
                        for l in by_label:
                            if l.value == b:
                                by_label[l].append(r)
                    for l in pooled:
                        pooled[l].append(by_label[l])
                    for g in fr.frame_ground_truth.objects:
                        for l in num_gt:
                            if l.value == V.label_of(g):
                                num_gt[l] += 1
                mine = MetricsScore(config=lane.config.metrics_config, used_frame=[int(fr.frame_name) for fr in frames])
                if lane.config.metrics_config.detection_config is not None:
                    mine.evaluate_detection(pooled, num_gt)
                if lane.config.metrics_config.tracking_config is not None:
                    mine.evaluate_tracking(pooled, num_gt)
                d = D.diff(D.metrics_digest(score), D.metrics_digest(mine), 1e-9)
                if d:
                    ctx.violate("C13", "scene_equals_pool", "the scene score differs from the library's own metrics evaluated on the pooled frame results",
                                {"diff": d[:300], "frames": len(frames)}, index)
                ctx.probe("c13_pool_recomputed")
            except Exception as e:  # noqa
                hit = X.innermost_repo_frame(__import__("traceback").extract_tb(e.__traceback__), ctx.R["src"])
                if hit is None:
                    raise
                ctx.violate("C13", "scene_equals_pool", "metrics on the pooled frame results raised %s in %s" % (type(e).__name__, hit), {}, index)
        if len(frames) >= 2:
            ctx.probe("c13_pooled_scene")
        # one_frame_scene
        if len(frames) == 1 and score.maps:
            ctx.probe("one_frame_scene")
            fm = D.metrics_digest(frames[0].metrics_score)["maps"]
            sm = D.metrics_digest(score)["maps"]
            d = D.diff(fm, sm, 1e-12)
            if d:
                ctx.violate("C13", "one_frame_scene", "a one-frame scene does not reproduce the frame's detection score", {"diff": d}, index)


# ------------------------------------------------------------------------------------------------------
# C05: CLEAR accounting (layer 1), statement-level reference (layer 2)
# ------------------------------------------------------------------------------------------------------


def _better(mode_name, val, thr):
    return val < thr if OS._SMALLER_BETTER[mode_name] else val > thr


def check_clear_scores(ctx, lane, index, tracking_scores, frames_results, gt_counts, labels, policy, level, prop="C05", cp=""):
    """frames_results[0] is the initial 'previous' frame (possibly empty)."""
    for ts in tracking_scores:
        mode_name = ts.matching_mode.value
        attr = OS._MODE_ATTR[mode_name]
        tl = [l.value for l in ts.target_labels]
        sum_mota = sum_motp = 0.0
        sum_gt = sum_tp = sum_idsw = 0
        for k, clear in enumerate(ts.clears):
            lab = tl[k]
            thr = clear.matching_threshold_list[0]
            res = clear.results
            buckets = [[r for r in fr if OS.bucket_of(r, labels) == lab] for fr in frames_results]
            counted = []
            ambiguous = False
            boundary = False
            for b in buckets:
                cb = []
                seen_ids = set()
                for r in b:
                    g = r.ground_truth_object
                    deciding = V.label_of(g) if g is not None else V.label_of(r.estimated_object)
                    if deciding != lab:
                        if g is not None:
                            ambiguous = True  # cross-label pair inside the bucket: the statement leaves it open
                        continue
                    val = None if g is None else getattr(r, attr).value
                    if val is not None and ref.near(val, thr):
                        boundary = True
                    key = (r.estimated_object.uuid, V.label_of(r.estimated_object))
                    if key in seen_ids:
                        ambiguous = True  # id_dup: first-match order decides in the implementation
                    seen_ids.add(key)
                    cb.append(
                        {
                            "eid": r.estimated_object.uuid,
                            "elabel": V.label_of(r.estimated_object),
                            "gid": None if g is None else g.uuid,
                            "score": val,
                            "compat": g is not None and ref.ref_compatible(policy, V.label_of(r.estimated_object), V.label_of(g)),
                        }
                    )
                counted.append(cb)
            n_counted = sum(len(c) for c in counted[1:])
            n_pred = sum(len(b) for b in buckets[1:])
            tp, fp, idsw, ssum = res["tp"], res["fp"], res["id_switch"], res["tp_matching_score"]
            ngt = clear.num_ground_truth
            ctx.probe("c05_clears")
            # ---- layer 1 -----------------------------------------------------------------------------
            if abs(tp - round(tp)) > 1e-9 or abs(fp - round(fp)) > 1e-9:
                ctx.violate(prop, cp + "counted_once", "%s TP/FP are not whole counts (%r, %r)" % (level, tp, fp), {}, index)
            if abs((tp + fp) - n_counted) > 1e-9:
                ctx.violate(prop, cp + "counted_once", "%s: TP + FP = %r but %d results of the evaluated label were evaluated" % (level, tp + fp, n_counted),
                            {"label": lab, "mode": mode_name, "frames": len(buckets) - 1}, index)
            if res["predict_num"] != n_pred:
                ctx.violate(prop, cp + "counted_once", "%s predict_num %r, %d results pooled" % (level, res["predict_num"], n_pred), {}, index)
            if idsw > tp + 1e-9 or idsw < 0:
                ctx.violate(prop, cp + "switch_only_on_tp", "%s: %d switches for %r TPs" % (level, idsw, tp), {}, index)
            if ngt != gt_counts.get(lab, 0):
                ctx.violate(prop, cp + "gt_count", "%s CLEAR uses %d ground truths, %d observed for %s" % (level, ngt, gt_counts.get(lab, 0), lab), {}, index)
            want_mota = ref.mota(tp, fp, idsw, ngt)
            want_motp = ref.motp(ssum, tp)
            if not _same(res["MOTA"], want_mota):
                ctx.violate(prop, cp + "mota_formula", "%s MOTA %r, counters give %r" % (level, res["MOTA"], want_mota),
                            {"tp": tp, "fp": fp, "idsw": idsw, "gt": ngt}, index)
            if not _same(res["MOTP"], want_motp):
                ctx.violate(prop, cp + "motp_formula", "%s MOTP %r, counters give %r" % (level, res["MOTP"], want_motp), {"tp": tp, "sum": ssum}, index)
            if res["MOTA"] != INF and res["MOTA"] >= 1.0 - 1e-12 and ngt > 0:
                ctx.probe("mota_one")
            if want_mota == 0.0 and ngt > 0 and (tp - fp - idsw) < 0:
                ctx.probe("mota_clamped")
            if idsw > 0:
                ctx.probe("id_switch_counted")
            if clear.mota != INF:
                sum_mota += clear.mota * ngt
            if clear.motp != INF:
                sum_motp += clear.motp * tp
            sum_gt += ngt
            sum_tp += int(tp)
            sum_idsw += idsw
            # ---- layer 2 -----------------------------------------------------------------------------
            if boundary:
                ctx.skip("boundary_skipped")
                continue
            if ambiguous:
                ctx.skip("ambiguous_history")
                continue

            def ok(score, thr=thr, mode_name=mode_name):
                return score is not None and _better(mode_name, score, thr)

            # rule-unambiguity: a result repeating a previous TP's pairing must be a TP on its own score
            same_score = True
            unamb = True
            for fi in range(1, len(counted)):
                prev_tp = {(r["eid"], r["elabel"], r["gid"]): r for r in counted[fi - 1] if r["gid"] is not None and r["compat"] and ok(r["score"])}
                for r in counted[fi]:
                    p = prev_tp.get((r["eid"], r["elabel"], r["gid"])) if r["gid"] is not None else None
                    if p is None:
                        continue
                    if not (r["compat"] and ok(r["score"])):
                        unamb = False
                    elif abs(p["score"] - r["score"]) > 1e-9:
                        same_score = False
            # the implementation also consults *uncounted* previous results; they were excluded above (ambiguous)
            if not unamb:
                ctx.skip("ambiguous_history")
                continue
            want = ref.ref_clear(counted, ok)
            ctx.probe("c05_layer2_checked")
            if n_counted >= 2 and len(counted) >= 3:
                ctx.probe("c05_nontrivial")
            if (round(tp), round(fp), idsw) != (want["tp"], want["fp"], want["idsw"]):
                ctx.violate(prop, cp + "clear_equals_definition", "%s CLEAR counters differ from the definition (%s, %s)" % (level, mode_name, lab),
                            {"got": {"tp": tp, "fp": fp, "idsw": idsw}, "want": want, "frames": [[(r["eid"], r["gid"], r["score"]) for r in f] for f in counted][:6]}, index)
            elif same_score and abs(ssum - want["score_sum"]) > 1e-6 * max(1.0, abs(want["score_sum"])):
                ctx.violate(prop, cp + "clear_equals_definition", "%s CLEAR score sum differs from the definition" % level,
                            {"got": ssum, "want": want["score_sum"]}, index)
        # ---- _sum_clear ------------------------------------------------------------------------------
        mota, motp, idsw_total = ts._sum_clear()
        want_mota = INF if sum_gt == 0 else max(0.0, sum_mota / sum_gt)
        want_motp = INF if sum_tp == 0 else sum_motp / sum_tp
        if not _same(mota, want_mota) or not _same(motp, want_motp) or idsw_total != sum_idsw:
            ctx.violate(prop, cp + "sum_clear_weighted", "%s totals (%r, %r, %r) differ from the ground-truth weighted sums (%r, %r, %r)" %
                        (level, mota, motp, idsw_total, want_mota, want_motp, sum_idsw), {}, index)


def _same(a, b, tol=1e-9):
    if a == b:
        return True
    if a in (INF, -INF) or b in (INF, -INF):
        return False
    return abs(a - b) <= tol * max(1.0, abs(a), abs(b))


class C05Monitor(X.Monitor):
    def on_step(self, ctx, lane, st):
        if st.result is None or not st.result.metrics_score.tracking_scores:
            return
        fr = st.result
        mine = [s_.result for s_ in lane.steps if s_.result is not None and s_.manager_gen == st.manager_gen]
        # st is already appended to lane.steps when monitors run
        prev = mine[-2].object_results if len(mine) >= 2 and mine[-1] is fr else []
        labels = [l.value for l in st.crit.target_labels]
        gt_counts = {}
        for g in fr.frame_ground_truth.objects:
            gt_counts[V.label_of(g)] = gt_counts.get(V.label_of(g), 0) + 1
        policy = V.plan_policy(ctx.plan["config"])   # as configured by the plan
        OS.check_configured_thresholds(ctx, "C05", st.index, fr.metrics_score.tracking_scores, "frame", ctx.plan["config"], "clear")
        check_clear_scores(ctx, lane, st.index, fr.metrics_score.tracking_scores, [prev, fr.object_results], gt_counts, labels, policy, "frame")

    def on_scene(self, ctx, lane, manager, rec, index):
        score = rec["score"]
        if score is None or not score.tracking_scores:
            return
        frames = rec["delivered"]  # own record of the delivered results, in delivery order
        labels = [l.value for l in lane.config.target_labels]
        gt_counts = {}
        for fr in frames:
            for g in fr.frame_ground_truth.objects:
                gt_counts[V.label_of(g)] = gt_counts.get(V.label_of(g), 0) + 1
        policy = V.plan_policy(ctx.plan["config"])   # as configured by the plan
        OS.check_configured_thresholds(ctx, "C05", index, score.tracking_scores, "scene", ctx.plan["config"], "clear")
        check_clear_scores(ctx, lane, index, score.tracking_scores, [[]] + [fr.object_results for fr in frames], gt_counts, labels, policy, "scene")
        self._perfect_tracker(ctx, lane, frames, score, index)

    def _perfect_tracker(self, ctx, lane, frames, score, index):
        """If every frame's results are exactly 'each critical GT paired with a same-label estimate at its own
        pose under one constant id', MOTA is 1 and nothing switches."""
        if not frames:
            return
        track_of = {}
        for fr in frames:
            gts = fr.frame_ground_truth.objects
            res = fr.object_results
            if len(res) != len(gts):
                return
            used = set()
            for r in res:
                g = r.ground_truth_object
                if g is None or id(g) in used or V.label_of(g) != V.label_of(r.estimated_object):
                    return
                if V.is_2d(g):
                    if V.roi_of(g) != V.roi_of(r.estimated_object) or V.frame_of(g) != V.frame_of(r.estimated_object):
                        return
                else:
                    if r.center_distance.value is None or r.center_distance.value > 1e-6:
                        return
                    if rm.q_angle_between(V.quat_of(g), V.quat_of(r.estimated_object)) > 1e-6:
                        return
                    if tuple(g.state.size) != tuple(r.estimated_object.state.size):
                        return
                if track_of.setdefault(g.uuid, r.estimated_object.uuid) != r.estimated_object.uuid:
                    return
                used.add(id(g))
            if len(set(track_of.values())) != len(track_of):
                return
        ctx.probe("perfect_tracker_scene")
        for ts in score.tracking_scores:
            mode_name = ts.matching_mode.value
            attr = OS._MODE_ATTR[mode_name]
            for c in ts.clears:
                thr = c.matching_threshold_list[0]
                # the geometry scores are not ours to judge (C06): if some coincident pair does not beat this
                # threshold on its own score (e.g. a polygon-intersection glitch giving IoU 0), nothing is claimed
                if any(getattr(r, attr).value is None or not _better(mode_name, getattr(r, attr).value, thr) or ref.near(getattr(r, attr).value, thr)
                       for fr in frames for r in fr.object_results):
                    ctx.skip("c05_pair_not_tp_on_own_score")
                    continue
                if c.num_ground_truth > 0 and (abs(c.mota - 1.0) > 1e-9 or c.id_switch != 0):
                    ctx.violate("C05", "perfect_tracker", "perfect tracking scores MOTA %r with %d switches (%s)" % (c.mota, c.id_switch, ts.matching_mode.value),
                                {"gt": c.num_ground_truth, "tp": c.tp, "fp": c.fp}, index)
                    return


# ------------------------------------------------------------------------------------------------------
# twins
# ------------------------------------------------------------------------------------------------------


def run_twin(ctx, name, ops, frame=None, token_map=None, est_id_map=None, plan=None, monitors=()):
    """Execute `ops` on a fresh evaluator loaded from the same files."""
    sub = ctx if plan is None else _sub_ctx(ctx, plan)
    lane = X.Lane(sub, name, frame=frame, token_map=token_map, est_id_map=est_id_map, monitors=monitors)
    lane.run(ops=ops)
    return lane


def _sub_ctx(ctx, plan):
    c = X.Ctx(plan, ctx.root)
    c.dataset_written = ctx.dataset_written if plan["world"] is ctx.plan["world"] and plan["storage"] is ctx.plan["storage"] else {}
    c.probes, c.skips = ctx.probes, ctx.skips
    c.violations = ctx.violations
    c.keepalive = ctx.keepalive
    return c


def _predecessor(lane, pos):
    """Position (in lane.steps) of the step whose result is the tracking predecessor of lane.steps[pos]."""
    st = lane.steps[pos]
    for q in range(pos - 1, -1, -1):
        p = lane.steps[q]
        if p.manager_gen != st.manager_gen:
            return None
        if p.result is not None:
            return q
    return None


def check_history_independence(ctx, lane, max_twins=6):
    """C13 `history_independent`: every sampled step equals the same delivery made to a fresh evaluator."""
    cand = [i for i, st in enumerate(lane.steps) if st.frame is not None]
    if not cand:
        return
    stride = max(1, math.ceil(len(cand) / max_twins))
    # prefer steps that re-evaluate a ground-truth frame seen before, or follow a restart / narrower filter
    seen, pri = set(), []
    for i in cand:
        st = lane.steps[i]
        key = (st.manager_gen, st.frame_kind, st.frame_index, st.stamp if st.frame_kind == "interp" else None)
        if key in seen:
            pri.append(i)
            ctx.probe("reeval_same_gt_frame")
        elif st.frame_kind == "interp" and any(k[0] == st.manager_gen and k[1] == "loaded" for k in seen):
            pri.append(i)   # an interpolated frame after loaded frames were evaluated: its neighbours carry history
        seen.add(key)
    chosen = sorted(set(pri[:max_twins] + cand[::stride][:max_twins]))[: max_twins + 2]
    tracking = ctx.plan["config"]["task"] == "tracking"
    for i in chosen:
        st = lane.steps[i]
        ops = []
        if tracking:
            q = _predecessor(lane, i)
            if q is not None:
                ops.append(lane.steps[q].op)
        ops.append(st.op)
        twin = run_twin(ctx, "fresh%d" % i, ops, frame=lane.frame, token_map=lane.token_map, est_id_map=lane.est_id_map)
        ctx.probe("c13_fresh_twins")
        if twin.aborted or not twin.steps:
            continue
        if not all(check_gt_from_this_frame(ctx, ts_) for ts_ in twin.steps):
            return
        a = D.step_digest(ctx, st)
        b = D.step_digest(ctx, twin.steps[-1])
        d = D.diff(a, b, 1e-12)
        if d:
            ctx.violate("C13", "history_independent", "a delivery evaluates differently on a fresh evaluator than after this history",
                        {"diff": d[:300], "step": st.index, "history_len": st.n_results_before,
                         "restarts_before": st.manager_gen}, st.index)
            return


def check_order_independence(ctx, lane):
    """C13 `order_independent`: pooled AP does not depend on the order frames were added (distinct confidences)."""
    plan = ctx.plan
    if plan["config"]["task"] != "detection" or "conf_tie" in plan.get("fired", {}):
        return
    ops = [st.op for st in lane.steps if st.frame is not None and st.manager_gen == lane.generation]
    if len(ops) < 2 or not lane.scene_scores or lane.scene_scores[-1]["score"] is None:
        return
    if lane.scene_scores[-1]["gen"] != lane.generation or lane.scene_scores[-1]["n_frames"] != len(ops):
        return
    # confidences must be distinct over the pooled results
    confs = [r.estimated_object.semantic_score for fr in lane.manager.frame_results for r in fr.object_results]
    if len(set(confs)) != len(confs):
        ctx.skip("order_confidence_tie")
        return
    perm = list(reversed(ops))
    twin = run_twin(ctx, "perm", perm + [{"op": "scene_query"}], frame=lane.frame)
    ctx.probe("c13_order_twins")
    if twin.aborted or not twin.scene_scores or twin.scene_scores[-1]["score"] is None:
        return
    a = D.metrics_digest(lane.scene_scores[-1]["score"])["maps"]
    b = D.metrics_digest(twin.scene_scores[-1]["score"])["maps"]
    d = D.diff(a, b, 1e-9)
    if d:
        ctx.violate("C13", "order_independent", "pooled AP depends on the order in which the frames were added", {"diff": d[:300]}, None)


# ---- C07 ----------------------------------------------------------------------------------------------


def _step_margin(ctx, lane, st):
    """Smallest relative margin of any threshold decision taken while evaluating this step (lazy, on disagreement)."""
    m = math.inf
    if st.calls is None or st.result is None and st.exc is None:
        return m
    for rec in st.calls:
        kw = dict(rec["kwargs"])
        if rec["fn"] == "filter_objects":
            objs = rec["in_kwlists"].get("objects") if "objects" in rec["in_kwlists"] else rec["in_lists"][0]
            params = V.filter_params(kw)
            for o in objs:
                _, mg = ref.ref_is_target(V.filter_view(o, st.ego_ref), kw["is_gt"], params)
                m = min(m, mg)
        elif rec["fn"] == "filter_object_results":
            results = rec["in_kwlists"].get("object_results") if "object_results" in rec["in_kwlists"] else rec["in_lists"][0]
            params = V.filter_params(kw)
            for r in results:
                _, mg = ref.ref_is_target(V.filter_view(r.estimated_object, st.ego_ref), False, params)
                m = min(m, mg)
                if r.ground_truth_object is not None:
                    _, mg = ref.ref_is_target(V.filter_view(r.ground_truth_object, st.ego_ref), True, params)
                    m = min(m, mg)
        elif rec["fn"] == "get_object_results":
            ests = rec["in_kwlists"].get("estimated_objects", [])
            gts = rec["in_kwlists"].get("ground_truth_objects", [])
            labels = [l.value for l in kw["target_labels"]] if kw.get("target_labels") is not None else None
            radii = kw.get("matchable_thresholds")
            ds = []
            for e in ests:
                for g in gts:
                    if V.frame_of(e) != V.frame_of(g):
                        continue
                    d = rm.dist3(V.pos_of(e), V.pos_of(g))
                    ds.append(d)
                    if radii is not None and labels is not None and V.label_of(g) in labels:
                        rj = radii[labels.index(V.label_of(g))]
                        m = min(m, abs(d - rj) / max(1.0, abs(rj)))
            ds.sort()
            for a, b in zip(ds, ds[1:]):
                m = min(m, (b - a))
    fr = st.result
    if fr is not None:
        thr_by_mode = {}
        for mp in fr.metrics_score.maps:
            thr_by_mode.setdefault(mp.matching_mode.value, []).extend(mp.matching_threshold_list)
        for ts in fr.metrics_score.tracking_scores:
            thr_by_mode.setdefault(ts.matching_mode.value, []).extend(c.matching_threshold_list[0] for c in ts.clears)
        if st.pf.matching_threshold_list is not None:
            thr_by_mode.setdefault("Plane Distance", []).extend(st.pf.matching_threshold_list)
        prev = lane.manager.frame_results
        pool = list(fr.object_results)
        for r in pool:
            g = r.ground_truth_object
            if g is None:
                continue
            for mode_name, thrs in thr_by_mode.items():
                val = getattr(r, OS._MODE_ATTR[mode_name]).value
                if val is None:
                    continue
                for t in thrs:
                    if not math.isinf(t):
                        m = min(m, abs(val - t) / max(1.0, abs(t)))
            # nearest-side ambiguity of the plane distance: 2nd vs 3rd closest ground-truth corner
            gp = V.ego_pos(g, st.ego_ref)
            yaw = rm.q_yaw(V.quat_of(g)) - (st.ego_ref[3] if V.frame_of(g) != "base_link" else 0.0)
            cs = rm.box_corners_bev((gp[0], gp[1], gp[2], yaw), tuple(g.state.size))
            dd = sorted(math.hypot(c[0], c[1]) for c in cs)
            m = min(m, dd[2] - dd[1])
    return m


def _iou_glitch(st):
    """Coincident estimate / ground-truth boxes whose BEV IoU is nowhere near 1: the polygon intersection of the
    geometry backend collapses for footprints that differ in the last bits (C06 territory, not a frame effect)."""
    if st.result is None:
        return False
    for r in st.result.object_results:
        g, e = r.ground_truth_object, r.estimated_object
        if g is None or r.center_distance.value is None or r.iou_2d.value is None:
            continue
        if r.center_distance.value < 1e-6 and tuple(g.state.size) == tuple(e.state.size) \
                and rm.q_angle_between(V.quat_of(g), V.quat_of(e)) < 1e-6 and r.iou_2d.value < 0.99:
            return True
    return False


def _strip_aph(metrics):
    m = copy.deepcopy(metrics)
    for mp in m.get("maps", []):
        mp["aph"] = None
        mp["maph"] = None
    return m


def _tilted_gt(st):
    """Does some ground truth of this step have a box that is not level (roll / pitch)?"""
    if st.result is None:
        return False
    for g in st.result.frame_ground_truth.objects:
        up = rm.q_rotate(rm.q_normalize(V.quat_of(g)), (0.0, 0.0, 1.0))
        if up[2] < 1.0 - 1e-9:
            return True
    return False


def check_frame_twin(ctx, lane):
    """C07: the same plan evaluated with everything expressed in the other coordinate frame."""
    other = "map" if lane.frame == "base_link" else "base_link"
    plan = ctx.plan
    if plan["lookup"]["interp"] or any(op.get("lookup", {}).get("interp") for op in plan["ops"]):
        # interpolated ground truth comes back expressed in the map frame whatever the evaluator's frame is, so an
        # ego-frame execution "with all objects expressed in the ego frame" does not exist for such plans
        ctx.skip("c07_interpolated_lookup")
        return
    twin = X.Lane(ctx, "frame_" + other, frame=other, monitors=())
    twin.run()
    ctx.probe("c07_twin_runs")
    if twin.aborted or lane.aborted:
        return
    if len(twin.steps) != len(lane.steps):
        ctx.violate("C07", "same_steps", "the two executions performed a different number of deliveries", {}, None)
        return
    for a, b in zip(lane.steps, twin.steps):
        if (a.frame is None) != (b.frame is None):
            ctx.violate("C07", "same_steps", "ground-truth lookup differs between the executions", {}, a.index)
            return
        if a.frame is None:
            continue
        if (a.exc is None) != (b.exc is None):
            which = lane.frame if a.exc is not None else other
            e = a.exc if a.exc is not None else b.exc
            ctx.violate("C07", "both_evaluate", "evaluation raises %s only in the %s frame" % (type(e).__name__, which), {"error": str(e)[:200]}, a.index)
            return
        if a.exc is not None:
            continue
        da, db = D.step_digest(ctx, a), D.step_digest(ctx, b)
        ctx.probe("c07_steps_compared")
        d = None
        for key, tol in (("results", 0), ("gt", 0), ("tp", 0), ("fp", 0), ("fn", 0), ("tn", 0), ("scores", 1e-6), ("metrics", 1e-6)):
            d = D.diff(da[key], db[key], tol or 1e-12, key)
            if d:
                break
        if d:
            if _iou_glitch(a) or _iou_glitch(b):
                ctx.skip("c07_iou_glitch")
                return
            margin = min(_step_margin(ctx, lane, a), _step_margin(ctx, twin, b))
            if margin < max(a.eps, b.eps):
                ctx.skip("c07_indeterminate")
                return  # later steps may legitimately differ as a consequence (tracking predecessor)
            aph_only = all(D.diff(da[k_], db[k_], 1e-6, k_) is None for k_ in ("results", "gt", "tp", "fp", "fn", "tn", "scores")) and \
                D.diff(_strip_aph(da["metrics"]), _strip_aph(db["metrics"]), 1e-6) is None
            ctx.violate("C07", "frame_independent", "ego-frame and map-frame evaluation of one scene disagree (%s)" % d.split(":")[0].split("/")[0].split("[")[0],
                        {"diff": d[:300], "margin": margin, "ego": list(a.ego_ref),
                         "explained_by_aph_of_tilted_ground_truth": bool(aph_only and (_tilted_gt(a) or _tilted_gt(b)))}, a.index)
            return
        if da["results"]:
            ctx.probe("c07_nontrivial")
    # scene level
    for sa, sb in zip(lane.scene_scores, twin.scene_scores):
        if sa["score"] is None or sb["score"] is None:
            continue
        ma, mb = D.metrics_digest(sa["score"]), D.metrics_digest(sb["score"])
        d = D.diff(ma, mb, 1e-6)
        if d:
            aph_only = D.diff(_strip_aph(ma), _strip_aph(mb), 1e-6) is None
            tilted = any(_tilted_gt(x) for x in lane.steps) or any(_tilted_gt(x) for x in twin.steps)
            ctx.violate("C07", "frame_independent", "scene scores of the ego-frame and map-frame executions disagree",
                        {"diff": d[:300], "explained_by_aph_of_tilted_ground_truth": bool(aph_only and tilted)}, sa["index"])
            return


# ---- C08 ----------------------------------------------------------------------------------------------


def check_looser_passfail(ctx, lane, max_twins=4):
    """C08 `tp_monotone` / `fn_monotone`: the same delivery judged with a looser pass/fail threshold."""
    cand = [st for st in lane.steps if st.result is not None and st.pf_spec.get("thr") is not None and st.result.object_results]
    stride = max(1, math.ceil(len(cand) / max_twins)) if cand else 1
    for st in cand[::stride][:max_twins]:
        for factor in (1.5, 4.0, "round1", "round0"):
            op = copy.deepcopy(st.op)
            pf = copy.deepcopy(st.pf_spec)
            dim2 = ctx.plan["config"].get("dim") == 2
            if dim2:
                # image objects pass on IoU: a looser threshold is a smaller one
                if factor == "round1":
                    pf["thr"] = [max(0.0, math.ceil(t * 10.0 - 1.0) / 10.0) for t in pf["thr"]]
                elif factor == "round0":
                    pf["thr"] = [0.0 for t in pf["thr"]]
                else:
                    pf["thr"] = [t / factor for t in pf["thr"]]
            elif factor == "round1":      # next value with one decimal, the way thresholds are usually written
                pf["thr"] = [math.floor(t * 10.0 + 1.0) / 10.0 for t in pf["thr"]]
            elif factor == "round0":    # next integer
                pf["thr"] = [float(math.floor(t) + 1) for t in pf["thr"]]
            else:
                pf["thr"] = [t * factor for t in pf["thr"]]
            op["pf"] = pf
            op["crit"] = st.crit_spec
            ops = []
            twin = run_twin(ctx, "loose%d" % st.index, [op], frame=lane.frame)
            ctx.probe("c08_looser_twins")
            if twin.aborted or not twin.steps or twin.steps[-1].result is None:
                continue
            a, b = D.step_digest(ctx, st), D.step_digest(ctx, twin.steps[-1])
            if a["results"] != b["results"] or a["gt"] != b["gt"]:
                ctx.skip("c08_twin_not_comparable")  # history dependence: C13's business
                continue
            # ordinary ground truth only
            fp_labelled = set()
            for r in st.result.object_results:
                g = r.ground_truth_object
                if g is not None and V.label_of(g) == "false_positive":
                    fp_labelled.add(g.uuid)
            for g in st.result.frame_ground_truth.objects:
                if V.label_of(g) == "false_positive":
                    fp_labelled.add(g.uuid)
            tp_a = set(x for x in map(tuple, a["tp"]) if x[1] not in fp_labelled)
            tp_b = set(x for x in map(tuple, b["tp"]) if x[1] not in fp_labelled)
            fn_a = [u for u in a["fn"] if u not in fp_labelled]
            fn_b = [u for u in b["fn"] if u not in fp_labelled]
            pf_attr = "iou_2d" if dim2 else "plane_distance"
            near = any(
                V.score_value(r, pf_attr) is not None and any(ref.near(V.score_value(r, pf_attr), t) for t in list(st.pf_spec["thr"]) + pf["thr"])
                for r in st.result.object_results if r.ground_truth_object is not None
            )
            if near:
                ctx.skip("boundary_skipped")
                continue
            if not tp_a <= tp_b:
                ctx.violate("C08", "tp_monotone", "a TP is lost when the pass/fail threshold is loosened x%s" % factor,
                            {"lost": sorted(tp_a - tp_b)[:3]}, st.index)
                return
            if len(fn_b) > len(fn_a):
                ctx.violate("C08", "fn_monotone", "FN count grows from %d to %d when the pass/fail threshold is loosened x%s" % (len(fn_a), len(fn_b), factor),
                            {}, st.index)
                return
            if tp_a:
                ctx.probe("c08_nontrivial")


# ---- C05 fault-accounting twins ---------------------------------------------------------------------------


def _rotation_map(keys):
    keys = sorted(keys)
    if len(keys) < 2:
        return {k: k + "_r" for k in keys}
    return {k: keys[(i + 1) % len(keys)] for i, k in enumerate(keys)}


def check_rename_twin(ctx, lane):
    """C05 `rename_invariant`: a bijection on estimated ids and on ground-truth instance tokens changes no score."""
    plan = ctx.plan
    est_ids = set(o["uuid"] for m in plan["messages"] for o in m["objects"] if o.get("uuid") is not None)
    tokens = [a["token"] for a in plan["world"]["actors"]]
    est_map = _rotation_map(est_ids)
    # half of the runs permute ids among themselves, the other half move them to fresh names
    if plan["run"] % 2:
        est_map = {k: "zz_" + v for k, v in est_map.items()}
    token_map = _rotation_map(tokens) if plan["run"] % 3 else {t: "tok_" + t[::-1] for t in tokens}
    twin = X.Lane(ctx, "rename", frame=lane.frame, token_map=token_map, est_id_map=est_map, monitors=())
    twin.run()
    ctx.probe("c05_rename_twins")
    if twin.aborted or len(twin.steps) != len(lane.steps):
        return
    for a, b in zip(lane.steps, twin.steps):
        if a.result is None or b.result is None:
            if (a.result is None) != (b.result is None):
                ctx.violate("C05", "rename_invariant", "renaming ids changes whether a delivery is evaluated", {}, a.index)
                return
            continue
        da = D.metrics_digest(a.result.metrics_score)
        db = D.metrics_digest(b.result.metrics_score)
        d = D.diff(da, db, 1e-12)
        if d:
            ctx.violate("C05", "rename_invariant", "frame scores change under a consistent renaming of track ids", {"diff": d[:300]}, a.index)
            return
        pa, pb = a.result.pass_fail_result, b.result.pass_fail_result
        if (len(pa.tp_object_results), len(pa.fp_object_results), len(pa.fn_objects), len(pa.tn_objects)) != (
            len(pb.tp_object_results), len(pb.fp_object_results), len(pb.fn_objects), len(pb.tn_objects)):
            ctx.violate("C05", "rename_invariant", "TP/FP/FN/TN counts change under a consistent renaming of track ids", {}, a.index)
            return
    for sa, sb in zip(lane.scene_scores, twin.scene_scores):
        if sa["score"] is None or sb["score"] is None:
            continue
        d = D.diff(D.metrics_digest(sa["score"]), D.metrics_digest(sb["score"]), 1e-12)
        if d:
            ctx.violate("C05", "rename_invariant", "scene scores change under a consistent renaming of track ids", {"diff": d[:300]}, sa["index"])
            return


def _final_switches(lane):
    if not lane.scene_scores or lane.scene_scores[-1]["score"] is None:
        return None
    out = []
    for ts in lane.scene_scores[-1]["score"].tracking_scores:
        out.append(([c.id_switch for c in ts.clears], ts._sum_clear()[2], [l.value for l in ts.target_labels],
                    ts.matching_mode.value, [c.matching_threshold_list[0] for c in ts.clears]))
    return out


def _tp_on_own_score(st, gt_uuid, mode_name, thr):
    """Is the result paired with ground truth `gt_uuid` in this step a TP on its own score (read from the implementation)?"""
    attr = OS._MODE_ATTR[mode_name]
    for r in st.result.object_results:
        g = r.ground_truth_object
        if g is not None and g.uuid == gt_uuid:
            v = getattr(r, attr).value
            return v is not None and _better(mode_name, v, thr) and not ref.near(v, thr)
    return False


def check_identity_fault_twins(ctx, lane):
    """C05 `new_id_costs_one` / `swap_costs_two` on fault-free tracking runs."""
    plan = ctx.plan
    if not plan.get("clean") or plan["config"]["task"] != "tracking" or lane.restarts:
        return
    base = _final_switches(lane)
    if base is None:
        return
    steps = [st for st in lane.steps if st.result is not None]
    if len(steps) < 2 or len(steps) != len(lane.steps):
        return
    labels = [l.value for l in lane.config.target_labels]
    if len(set(labels)) != len(labels):
        ctx.skip("c05_duplicate_target_labels")  # totals then count a label's switches once per entry
        return

    def tracked(st):
        """uuid of GT -> (actor index, est label) for results that are perfect pairs of a targeted label."""
        out = {}
        views = {}
        for g in st.result.frame_ground_truth.objects:
            views[g.uuid] = views.get(g.uuid, 0) + 1
        ids = {}
        for r in st.result.object_results:
            ids[r.estimated_object.uuid] = ids.get(r.estimated_object.uuid, 0) + 1
        for r in st.result.object_results:
            g = r.ground_truth_object
            if g is None:
                continue
            if views.get(g.uuid, 0) > 1:
                continue   # a target annotated in two cameras at once has two pairings per frame: the claim is per pairing
            if r.estimated_object.uuid is None or ids[r.estimated_object.uuid] > 1:
                continue   # "correctly tracked" presupposes an identity of its own
            info = ctx.est_registry.get(id(r.estimated_object))
            lab = V.label_of(r.estimated_object)
            if info is None or info["spec"]["src"] < 0 or lab not in labels or lab != V.label_of(g):
                continue
            if r.center_distance.value > 1e-6:
                continue
            out[g.uuid] = (info["spec"]["src"], lab)
        return out

    per_step = [tracked(st) for st in steps]
    cands_new, cands_swap = [], []
    for s in range(1, len(steps)):
        both = sorted(set(per_step[s - 1]) & set(per_step[s]))
        for u in both:
            cands_new.append((s, u))
        for i in range(len(both)):
            for j in range(i + 1, len(both)):
                cands_swap.append((s, both[i], both[j]))
    if cands_new:
        s, u = cands_new[plan["run"] % len(cands_new)]
        ai, lab = per_step[s][u]
        mids = set(st.msg["mid"] for st in steps[s:])
        p2 = dict(plan)
        p2["messages"] = copy.deepcopy(plan["messages"])
        for m in p2["messages"]:
            if m["mid"] in mids:
                for o in m["objects"]:
                    if o["src"] == ai:
                        o["uuid"] = "fresh_identity"
        twin = run_twin(ctx, "newid", None, frame=lane.frame, plan=p2)
        got = _final_switches(twin)
        ctx.probe("c05_new_id_twins")
        if got is not None:
            for (b_cl, b_tot, tl, mode_name, thrs), (g_cl, g_tot, _, _, _) in zip(base, got):
                if lab not in tl:
                    continue
                thr = thrs[tl.index(lab)]
                if not all(_tp_on_own_score(st, u, mode_name, thr) for st in steps):
                    ctx.skip("c05_pair_not_tp_on_own_score")  # "correctly tracked" does not hold under this score
                    continue
                want = [x + (1 if l == lab else 0) for x, l in zip(b_cl, tl)]
                if g_cl != want or g_tot != b_tot + 1:
                    ctx.violate("C05", "new_id_costs_one", "a new id on a continuing, correctly tracked target costs %d switch(es), not 1" % (g_tot - b_tot),
                                {"base": b_cl, "got": g_cl, "label": lab}, None)
                    break
    if cands_swap:
        s, u1, u2 = cands_swap[plan["run"] % len(cands_swap)]
        (a1, l1), (a2, l2) = per_step[s][u1], per_step[s][u2]
        mids = set(st.msg["mid"] for st in steps[s:])
        p2 = dict(plan)
        p2["messages"] = copy.deepcopy(plan["messages"])
        id1 = id2 = None
        for m in plan["messages"]:
            for o in m["objects"]:
                if o["src"] == a1:
                    id1 = o["uuid"]
                if o["src"] == a2:
                    id2 = o["uuid"]
        for m in p2["messages"]:
            if m["mid"] in mids:
                for o in m["objects"]:
                    if o["src"] == a1:
                        o["uuid"] = id2
                    elif o["src"] == a2:
                        o["uuid"] = id1
        twin = run_twin(ctx, "swap", None, frame=lane.frame, plan=p2)
        got = _final_switches(twin)
        ctx.probe("c05_swap_twins")
        if got is not None:
            for (b_cl, b_tot, tl, mode_name, thrs), (g_cl, g_tot, _, _, _) in zip(base, got):
                if l1 not in tl or l2 not in tl:
                    continue
                if not all(_tp_on_own_score(st, u1, mode_name, thrs[tl.index(l1)]) and _tp_on_own_score(st, u2, mode_name, thrs[tl.index(l2)])
                           for st in steps):
                    ctx.skip("c05_pair_not_tp_on_own_score")
                    continue
                want = [x + (1 if l == l1 else 0) + (1 if l == l2 else 0) for x, l in zip(b_cl, tl)]
                if g_cl != want or g_tot != b_tot + 2:
                    ctx.violate("C05", "swap_costs_two", "exchanging two correctly tracked identities costs %d switch(es), not 2" % (g_tot - b_tot),
                                {"base": b_cl, "got": g_cl, "labels": [l1, l2]}, None)
                    break


# ---- C13: a second evaluator alive in the same process, operations interleaved ------------------------


def _noise_plan(plan):
    """Another scenario for a second evaluator: sibling dataset (same timestamps and tokens, other poses), the other
    coordinate frame, different evaluator-level filters."""
    from .plan import derive_sibling

    noise_plan = dict(derive_sibling(plan, dx=-64.0, dy=211.0, dz=-0.3, dyaw=-1.1))
    cfg = copy.deepcopy(plan["config"])
    if cfg.get("dim") == 2:
        cfg["frame"] = list(reversed(cfg["frame"]))
        if cfg.get("radii") is None:
            cfg["radii"] = 25.0
    else:
        cfg["frame"] = "map" if cfg["frame"] == "base_link" else "base_link"
        if cfg.get("min_pts") is not None or cfg["task"] != "detection":
            cfg["min_pts"] = 40 if not cfg.get("min_pts") else 0
        if cfg.get("radii") is None:
            cfg["radii"] = 1.5
    noise_plan["config"] = cfg
    noise_plan["lookup"] = dict(plan["lookup"], interp=False)
    noise_plan["ops"] = [op for op in plan["ops"] if op["op"] != "analyze"]
    noise_plan["lookups"] = []
    return noise_plan


def run_prelude_evaluator(ctx):
    """Before the evaluator under observation is even constructed, another evaluator with another dataset and other
    filters lives and dies in the same process.  Anything it leaves behind (class attributes, module-level caches keyed
    by timestamp / token / frame number) then meets the observed evaluator, whose own invariants must still hold."""
    sub = _sub_ctx(ctx, _noise_plan(ctx.plan))
    lane = X.Lane(sub, "prelude", monitors=())
    lane.run()
    ctx.probe("c13_prelude_evaluators")


def check_interleaved_manager(ctx, lane):
    """C13 `history_independent` across evaluators: the plan is executed again on a fresh evaluator while a second
    evaluator (other dataset with the same timestamps and tokens, other coordinate frame, permuted label order) is
    driven in lock-step, one operation each in turn.  Nothing the other evaluator does may change this one's results."""
    plan = ctx.plan
    if lane.aborted or not lane.steps:
        return
    noise_plan = _noise_plan(plan)
    sub = _sub_ctx(ctx, noise_plan)
    inter = X.Lane(ctx, "inter", frame=lane.frame, monitors=())
    noise = X.Lane(sub, "noise", monitors=())
    try:
        noise.begin()
        inter.begin()
        ops = [op for op in plan["ops"] if op["op"] != "analyze"]
        for index, op in enumerate(plan["ops"]):
            if op["op"] == "analyze":
                continue
            try:
                noise.do_op(index, op)   # the other evaluator goes first at every turn
            except X.LaneAborted:
                pass
            inter.do_op(index, op)
    except X.LaneAborted:
        return
    ctx.probe("c13_interleaved_runs")
    if not all(check_gt_from_this_frame(ctx, st_) for st_ in inter.steps):
        return
    mine = [st for st in lane.steps]
    if len(inter.steps) != len(mine):
        ctx.violate("C13", "history_independent", "an evaluator performs a different number of deliveries when another evaluator is active", {}, None)
        return
    for a, b in zip(mine, inter.steps):
        d = D.diff(D.step_digest(ctx, a), D.step_digest(ctx, b), 1e-12)
        if d:
            ctx.violate("C13", "history_independent", "a delivery evaluates differently while a second evaluator is being driven in the same process",
                        {"diff": d[:300]}, a.index)
            return
    for sa, sb in zip(lane.scene_scores, inter.scene_scores):
        if sa["score"] is None or sb["score"] is None:
            continue
        d = D.diff(D.metrics_digest(sa["score"]), D.metrics_digest(sb["score"]), 1e-12)
        if d:
            ctx.violate("C13", "history_independent", "a scene score differs while a second evaluator is being driven in the same process", {"diff": d[:300]}, sa["index"])
            return
