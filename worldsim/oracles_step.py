"""Per-step conformance oracles: C10 (filters), C01/C02 (matching), C03 (accounting), C04 (AP), C08 (monotone).

Every clause is evaluated on the implementation's own observed upstream outputs (DESIGN.md 2.6 rule 1):
the recorded arguments of each filter / matching call, the step's own object results, the Map objects'
own thresholds.  Decisions closer to a boundary than reference.EPS_REL are skipped and counted.
"""
import math

from . import executor as X
from . import reference as ref
from . import refmath as rm
from . import views as V

EPS = ref.EPS_REL


def _ids(seq):
    return [id(x) for x in seq]


def attribute_exception(tb, src, default):
    """Map an exception escaping from repository code to the property whose mechanism raised it."""
    hit = X.innermost_repo_frame(tb, src)
    if hit is None:
        return None, None  # not from the repository: harness error
    path, func, line = hit
    base = path.replace("\\", "/")
    prop = default
    if base.endswith("object_result.py") or base.endswith("object_matching.py"):
        prop = "C01"
    elif base.endswith("objects_filter.py"):
        if func in ("filter_objects", "filter_object_results", "_is_target_object"):
            prop = "C10"
        elif func in ("get_positive_objects", "get_negative_objects"):
            prop = "C03"
        else:
            prop = "C13"
    elif base.endswith("perception_pass_fail_result.py") or base.endswith("perception_frame_result.py"):
        prop = "C03"
    elif "/metrics/detection/" in base:
        prop = "C04"
    elif "/metrics/tracking/" in base:
        prop = "C05"
    elif base.endswith("dataset_utils.py"):
        prop = "C16"
    elif base.endswith("dataset.py") or base.endswith("geometry.py"):
        prop = "C17"
    elif base.startswith("tool/"):
        prop = "C19"
    elif base.startswith("manager/"):
        prop = "C13"
    elif base.endswith("threshold.py"):
        prop = "C10"  # per-label bound lists of the filter
    return prop, "%s in %s:%s" % ("%s", base, func)


class ExceptionMonitor(X.Monitor):
    """Any exception escaping from /repo during an operation whose preconditions hold is a violation."""

    def on_step(self, ctx, lane, st):
        if st.exc is None:
            return
        prop, sig = attribute_exception(st.exc_tb, ctx.R["src"], "C03")
        if prop is None:
            raise st.exc  # harness error
        # C17 interplay: an exception inside get_object_results etc. caused by an interpolated frame is still theirs
        ctx.violate(prop, "no_exception", sig % type(st.exc).__name__, {"error": str(st.exc)[:300]}, st.index)

    def on_lookup(self, ctx, lane, manager, query, frame):
        if query.get("exc") is None:
            return
        prop, sig = attribute_exception(query["exc_tb"], ctx.R["src"], "C17")
        if prop is None:
            raise query["exc"]
        ctx.violate(prop, "no_exception", sig % type(query["exc"]).__name__, {"error": str(query["exc"])[:300],
                                                                               "query": {k: query[k] for k in ("t", "tol", "interp")}}, query["index"])

    def on_scene(self, ctx, lane, manager, rec, index):
        if rec["exc"] is None:
            return
        prop, sig = attribute_exception(rec["tb"], ctx.R["src"], "C13")
        if prop is None:
            raise rec["exc"]
        ctx.violate(prop, "no_exception", sig % type(rec["exc"]).__name__, {"error": str(rec["exc"])[:300]}, index)


# ------------------------------------------------------------------------------------------------------
# C10
# ------------------------------------------------------------------------------------------------------


class C10Monitor(X.Monitor):
    def on_step(self, ctx, lane, st):
        if st.calls is None:
            return
        for rec in st.calls:
            if rec["fn"] == "filter_objects":
                self._check_filter_objects(ctx, lane, st, rec)
            elif rec["fn"] == "filter_object_results":
                self._check_filter_results(ctx, lane, st, rec)
        self._check_end_to_end(ctx, lane, st)

    @staticmethod
    def _lane_cfg(ctx, lane):
        cfg = ctx.plan["config"]
        if lane.token_map and cfg.get("target_uuids"):
            cfg = dict(cfg, target_uuids=[lane.token_map.get(u, u) for u in cfg["target_uuids"]])
        return cfg

    def _check_end_to_end(self, ctx, lane, st):
        """Whatever calls the evaluator makes internally: the ground truth a frame result ends up with is exactly the
        handed-in frame's objects that satisfy the evaluator's criteria and the per-frame critical criteria, and every
        estimate that is still part of a result satisfies both sets of criteria too."""
        if st.result is None or st.gt_snapshot is None:
            return
        # the criteria as the plan configured them -- not as the evaluator's own config objects happen to hold them
        cfg_params = V.plan_filter_params(self._lane_cfg(ctx, lane))
        crit_params = V.plan_filter_params(ctx.plan["config"], st.crit_spec)
        expect, undecided = [], set()
        for g in st.gt_snapshot:
            view = V.filter_view(g, st.ego_ref)
            d1, m1 = ref.ref_is_target(view, True, cfg_params)
            d2, m2 = ref.ref_is_target(view, True, crit_params)
            if (not d1 and m1 >= st.eps) or (not d2 and m2 >= st.eps):
                continue
            if m1 < st.eps or m2 < st.eps:
                undecided.add(id(g))
                ctx.skip("boundary_skipped")
                continue
            expect.append(g)
        got = [g for g in st.result.frame_ground_truth.objects if id(g) not in undecided]
        if not all(id(g) in set(_ids(st.gt_snapshot)) for g in got):
            return   # copies: judged by C13 `gt_from_this_frame`
        ctx.probe("c10_end_to_end_checked")
        if _ids(got) != _ids(expect):
            exp_set, got_set = set(_ids(expect)), set(_ids(got))
            extra = [V.filter_view(o, st.ego_ref) for o in got if id(o) not in exp_set]
            missing = [V.filter_view(o, st.ego_ref) for o in expect if id(o) not in got_set]
            kind = "keeps a ground truth that fails a configured criterion" if extra else (
                "lacks a ground truth that satisfies every configured criterion" if missing else "changes the order of the ground truth")
            ctx.violate("C10", "end_to_end", "the frame result %s" % kind,
                        {"extra": extra[:2], "missing": missing[:2], "evaluator": _jsonable(cfg_params), "critical": _jsonable(crit_params)}, st.index)
        est_cfg = dict(cfg_params)
        est_crit = dict(crit_params)
        est_crit["ignore_attributes"] = None   # result filtering judges attributes on the ground-truth side only
        for r in st.result.object_results:
            view = V.filter_view(r.estimated_object, st.ego_ref)
            for name, params in (("evaluator's", est_cfg), ("critical", est_crit)):
                d, m = ref.ref_is_target(view, False, params)
                if m < st.eps:
                    ctx.skip("boundary_skipped")
                elif not d:
                    ctx.violate("C10", "end_to_end", "a result keeps an estimate that fails the %s criteria" % name,
                                {"view": view, "params": _jsonable(params)}, st.index)
                    return

    # -- helpers --------------------------------------------------------------------------------------
    def _args(self, rec, first):
        kwargs = dict(rec["kwargs"])
        if rec["args"]:
            kwargs[first] = rec["args"][0]
        return kwargs

    def _check_filter_objects(self, ctx, lane, st, rec):
        if "exc" in rec:
            return
        kw = self._args(rec, "objects")
        objs = rec["in_kwlists"].get("objects") if "objects" in rec["in_kwlists"] else rec["in_lists"][0]
        is_gt = kw["is_gt"]
        # what the objects are is decided by where they come from, not by the flag the caller happens to pass:
        # the estimates of this delivery are estimates, the objects of the frame handed in are ground truth
        if objs:
            est_ids = set(id(o) for o in (st.estimates or []))
            gt_ids = set(id(o) for o in (st.gt_snapshot or []))
            if all(id(o) in gt_ids for o in objs):
                is_gt = True
            elif all(id(o) in est_ids for o in objs):
                is_gt = False
            if is_gt != kw["is_gt"]:
                ctx.probe("c10_role_differs_from_flag")
        params = V.filter_params(kw)
        out = rec["out_list"]
        ctx.probe("c10_filter_calls")
        if rec.get("mutated"):
            ctx.violate("C10", "input_untouched", "filter_objects changed its input list (%s)" % rec["site"], {}, st.index)
        expect, undecided = [], set()
        for o in objs:
            dec, margin = ref.ref_is_target(V.filter_view(o, st.ego_ref), is_gt, params)
            if margin < st.eps:
                undecided.add(id(o))
                ctx.skip("boundary_skipped")
                continue
            if dec:
                expect.append(o)
        got = [o for o in out if id(o) not in undecided]
        if _ids(got) != _ids(expect):
            exp_set, got_set = set(_ids(expect)), set(_ids(got))
            extra = [V.filter_view(o, st.ego_ref) for o in got if id(o) not in exp_set]
            missing = [V.filter_view(o, st.ego_ref) for o in expect if id(o) not in got_set]
            kind = "kept_but_should_drop" if extra else ("dropped_but_should_keep" if missing else "order_changed")
            ctx.violate("C10", "kept_exactly", "filter_objects(%s,is_gt=%s): %s" % (rec["site"], is_gt, kind),
                        {"extra": extra[:3], "missing": missing[:3], "params": _jsonable(params)}, st.index)
        if any(id(o) not in set(_ids(objs)) for o in out):
            ctx.violate("C10", "kept_exactly", "filter_objects output contains foreign objects", {}, st.index)
        if expect:
            ctx.probe("c10_nontrivial")
        self._probe_calls(ctx, st, rec, "filter_objects", kw, objs, out)

    def _check_filter_results(self, ctx, lane, st, rec):
        if "exc" in rec:
            return
        kw = self._args(rec, "object_results")
        results = rec["in_kwlists"].get("object_results") if "object_results" in rec["in_kwlists"] else rec["in_lists"][0]
        params = V.filter_params(kw)
        out = rec["out_list"]
        ctx.probe("c10_filter_result_calls")
        if rec.get("mutated"):
            ctx.violate("C10", "input_untouched", "filter_object_results changed its input list (%s)" % rec["site"], {}, st.index)
        est_params = dict(params)
        est_params["ignore_attributes"] = None
        expect, undecided = [], set()
        for r in results:
            dec_e, m_e = ref.ref_is_target(V.filter_view(r.estimated_object, st.ego_ref), False, est_params)
            if r.ground_truth_object is not None:
                dec_g, m_g = ref.ref_is_target(V.filter_view(r.ground_truth_object, st.ego_ref), True, params)
            else:
                dec_g, m_g = True, math.inf
                if params.get("target_uuids"):
                    undecided.add(id(r))  # statement is silent on GT-less results under a uuid filter
                    continue
            # a failing side decides on its own; otherwise both margins matter
            if (not dec_e and m_e >= st.eps) or (not dec_g and m_g >= st.eps):
                continue  # decisively removed
            if m_e < st.eps or m_g < st.eps:
                undecided.add(id(r))
                ctx.skip("boundary_skipped")
                continue
            if dec_e and dec_g:
                expect.append(r)
        got = [r for r in out if id(r) not in undecided]
        if _ids(got) != _ids(expect):
            exp_set, got_set = set(_ids(expect)), set(_ids(got))
            extra = [r for r in got if id(r) not in exp_set]
            missing = [r for r in expect if id(r) not in got_set]
            kind = "kept_but_should_drop" if extra else ("dropped_but_should_keep" if missing else "order_changed")

            def rv(r):
                return {"est": V.filter_view(r.estimated_object, st.ego_ref),
                        "gt": None if r.ground_truth_object is None else V.filter_view(r.ground_truth_object, st.ego_ref)}

            ctx.violate("C10", "result_removed_if_either_fails", "filter_object_results(%s): %s" % (rec["site"], kind),
                        {"extra": [rv(r) for r in extra[:2]], "missing": [rv(r) for r in missing[:2]],
                         "params": _jsonable(params)}, st.index)
        self._probe_calls(ctx, st, rec, "filter_object_results", kw, results, out)

    def _probe_calls(self, ctx, st, rec, fn, kw, inputs, out):
        """Idempotence and widening, by calling the real function again on the recorded input."""
        if len(inputs) > 24:
            return
        orig = X.original(rec["site"], fn)
        first = "objects" if fn == "filter_objects" else "object_results"
        base = dict(kw)
        base.pop(first, None)
        try:
            again = orig(list(out), **base)
        except Exception as e:  # noqa
            ctx.violate("C10", "idempotent", "re-filtering raised %s" % type(e).__name__, {}, st.index)
            return
        if _ids(again) != _ids(out):
            ctx.violate("C10", "idempotent", "%s(%s) applied twice changes the result" % (fn, rec["site"]), {}, st.index)
        # ego-frame objects need no transform: the outcome must not depend on whether transforms are None, empty or the frame's
        if inputs and all(V.frame_of(o if fn == "filter_objects" else o.estimated_object) == "base_link" for o in inputs) and (
                fn == "filter_objects" or all(o.ground_truth_object is None or V.frame_of(o.ground_truth_object) == "base_link" for o in inputs)):
            from perception_eval.common.transform import TransformDict

            for label, tf in (("None", None), ("an empty TransformDict", TransformDict())):
                b2 = dict(base)
                b2["transforms"] = tf
                try:
                    alt = orig(list(inputs), **b2)
                except Exception as e:  # noqa
                    ctx.violate("C10", "kept_exactly", "filtering ego-frame objects with transforms=%s raised %s" % (label, type(e).__name__), {}, st.index)
                    continue
                if _ids(alt) != _ids(out):
                    ctx.violate("C10", "kept_exactly", "filtering ego-frame objects gives another result with transforms=%s (%s, %s)" % (label, fn, rec["site"]),
                                {"with_frame_transforms": len(out), "alternative": len(alt)}, st.index)
                ctx.probe("c10_transform_free_probes")
        # confidence is a criterion for estimates only: a ground truth that carries a score of its own (pseudo-labels, re-used
        # detections) below the confidence bound of its label must not take its result away.  The loader always stamps 1.0, so
        # the recorded input is replayed with the scores of the paired ground truths lowered for the duration of the call.
        if fn == "filter_object_results" and base.get("confidence_threshold_list") is not None:
            gts = {id(r.ground_truth_object): r.ground_truth_object for r in inputs if r.ground_truth_object is not None}
            saved = {k: g.semantic_score for k, g in gts.items()}
            if gts:
                try:
                    for g in gts.values():
                        g.semantic_score = 0.0
                    try:
                        low = orig(list(inputs), **base)
                    finally:
                        for k, g in gts.items():
                            g.semantic_score = saved[k]
                except Exception as e:  # noqa
                    ctx.violate("C10", "kept_exactly", "filtering results whose ground truth carries a score raised %s" % type(e).__name__, {}, st.index)
                else:
                    if _ids(low) != _ids(out):
                        ctx.violate("C10", "kept_exactly", "the confidence bound is applied to the ground truth of a result: lowering the ground "
                                    "truths' own scores changes filter_object_results (%s)" % rec["site"],
                                    {"kept": len(out), "kept_with_scored_ground_truth": len(low)}, st.index)
                    ctx.probe("c10_scored_gt_probes")
        # widening: every numeric bound relaxed, one at a time and all together
        widen = {
            "max_x_position_list": lambda v: [x * 1.5 + 1.0 for x in v],
            "max_y_position_list": lambda v: [x * 1.5 + 1.0 for x in v],
            "max_distance_list": lambda v: [x * 1.5 + 1.0 for x in v],
            "min_distance_list": lambda v: [x - abs(x) * 0.5 for x in v],
            "min_point_numbers": lambda v: [max(0, x - 3) for x in v],
            "confidence_threshold_list": lambda v: [x * 0.5 for x in v],
        }
        keys = [k for k in widen if base.get(k) is not None]
        trials = [[k] for k in keys]
        if len(keys) > 1:
            trials.append(keys)
        out_ids = _ids(out)
        for ks in trials:
            wk = dict(base)
            for k in ks:
                wk[k] = widen[k](base[k])
            try:
                wide = orig(list(inputs), **wk)
            except Exception as e:  # noqa
                ctx.violate("C10", "widening_keeps", "widened filter raised %s" % type(e).__name__, {}, st.index)
                continue
            wide_ids = set(_ids(wide))
            if any(i not in wide_ids for i in out_ids):
                ctx.violate("C10", "widening_keeps", "widening %s removed a kept object (%s, %s)" % (",".join(ks), fn, rec["site"]),
                            {}, st.index)
            ctx.probe("c10_widen_probes")


def _jsonable(x):
    if isinstance(x, dict):
        return {str(k): _jsonable(v) for k, v in x.items()}
    if isinstance(x, (list, tuple)):
        return [_jsonable(v) for v in x]
    if isinstance(x, (int, float, str, bool)) or x is None:
        return x
    return str(x)


# ------------------------------------------------------------------------------------------------------
# C01 / C02
# ------------------------------------------------------------------------------------------------------


class MatchingMonitor(X.Monitor):
    def on_step(self, ctx, lane, st):
        if st.calls is None:
            return
        for rec in st.calls:
            if rec["fn"] == "get_object_results":
                self._check(ctx, lane, st, rec)
        self._check_end_to_end(ctx, lane, st)

    def _check_end_to_end(self, ctx, lane, st):
        """Independent of how the evaluator calls its matcher: the pairs a frame result ends up with respect the radius
        *configured* for the ground truth's label, join objects of one frame only, and an FP-validation result holds no
        unpaired estimate."""
        if st.result is None:
            return
        pcfg = ctx.plan["config"]
        labels = [V.canonical_label(l, bool(pcfg["merge"])) for l in pcfg["target_labels"]]
        radii = V._per_label(pcfg.get("radii"), len(labels))     # as the plan configured them
        fpv = pcfg["task"] == "fp_validation"
        seen_e, seen_g = set(), set()
        for r in st.result.object_results:
            e, g = r.estimated_object, r.ground_truth_object
            if id(e) in seen_e or (g is not None and id(g) in seen_g):
                ctx.violate("C01", "one_to_one", "an object appears in two results of one frame result", {}, st.index)
                return
            seen_e.add(id(e))
            if g is None:
                if fpv:
                    ctx.violate("C01", "fp_validation_drops_unpaired", "an FP-validation frame result holds an unpaired estimate", {}, st.index)
                    return
                continue
            seen_g.add(id(g))
            if V.frame_of(e) != V.frame_of(g):
                ctx.violate("C01", "same_frame_only", "a frame result pairs objects of frames %s / %s" % (V.frame_of(e), V.frame_of(g)), {}, st.index)
                return
            if radii is not None and V.label_of(g) in labels:
                rj = radii[labels.index(V.label_of(g))]
                if V.is_2d(g):
                    d, slack = ref.roi_center_distance(V.roi_of(e), V.roi_of(g)), ref.ROI_CENTER_SLACK
                else:
                    d, slack = rm.dist3(V.pos_of(e), V.pos_of(g)), 0.0
                if ref.near(d, rj) or abs(d - rj) <= slack:
                    ctx.skip("boundary_skipped")
                elif not d < rj:
                    ctx.violate("C01", "within_radius", "a frame result pairs objects farther apart than the radius configured for the ground truth's label",
                                {"distance": d, "radius": rj, "gt_label": V.label_of(g)}, st.index)
                    return
                else:
                    ctx.probe("c01_configured_radius_checked")

    def _check(self, ctx, lane, st, rec):
        kw = rec["kwargs"]
        ests = rec["in_kwlists"].get("estimated_objects", [])
        gts = rec["in_kwlists"].get("ground_truth_objects", [])
        fpv = kw["evaluation_task"].is_fp_validation()
        ctx.probe("c01_calls")
        if not gts:
            ctx.probe("empty_gt_frame")
        if not ests:
            ctx.probe("empty_estimates")
        if "exc" in rec:
            ctx.probe("c01_exception")
            return  # reported by ExceptionMonitor with its own attribution
        out = rec["out_list"]
        if rec.get("mutated"):
            ctx.violate("C01", "inputs_untouched", "get_object_results changed a caller list", {}, st.index)
        est_ids, gt_ids = set(_ids(ests)), set(_ids(gts))
        used_e, used_g = {}, {}
        policy = V.plan_policy(ctx.plan["config"])   # the configured policy, whatever the evaluator hands to its matcher
        labels = [l.value for l in kw["target_labels"]] if kw.get("target_labels") is not None else None
        radii = kw.get("matchable_thresholds")
        dim2 = any(V.is_2d(o) for o in list(ests)[:1] + list(gts)[:1])
        if dim2:
            ctx.probe("c01_image_objects")
            pos_e = [V.roi_of(o) for o in ests]
            pos_g = [V.roi_of(o) for o in gts]
            cdist, slack = ref.roi_center_distance, ref.ROI_CENTER_SLACK
        else:
            pos_e = [V.pos_of(o) for o in ests]
            pos_g = [V.pos_of(o) for o in gts]
            cdist, slack = rm.dist3, 0.0

        def near_radius(d, rj):
            return ref.near(d, rj) or abs(d - rj) <= slack

        fr_e = [V.frame_of(o) for o in ests]
        fr_g = [V.frame_of(o) for o in gts]
        lab_e = [V.label_of(o) for o in ests]
        lab_g = [V.label_of(o) for o in gts]
        idx_e = {id(o): i for i, o in enumerate(ests)}
        idx_g = {id(o): j for j, o in enumerate(gts)}

        def radius(j):
            if radii is None or labels is None:
                return None
            return radii[labels.index(lab_g[j])] if lab_g[j] in labels else None

        pairs = []
        for r in out:
            e, g = r.estimated_object, r.ground_truth_object
            if id(e) not in est_ids:
                ctx.violate("C01", "nothing_foreign", "result holds an estimate that was not in the input", {}, st.index)
                continue
            used_e[id(e)] = used_e.get(id(e), 0) + 1
            if g is None:
                if fpv:
                    ctx.violate("C01", "fp_validation_drops_unpaired", "FP validation kept an unpaired estimate", {}, st.index)
                continue
            if id(g) not in gt_ids:
                ctx.violate("C01", "nothing_foreign", "result holds a ground truth that was not in the input", {}, st.index)
                continue
            used_g[id(g)] = used_g.get(id(g), 0) + 1
            i, j = idx_e[id(e)], idx_g[id(g)]
            pairs.append((i, j))
            if fr_e[i] != fr_g[j]:
                ctx.violate("C01", "same_frame_only", "paired objects of frames %s / %s" % (fr_e[i], fr_g[j]), {}, st.index)
            rj = radius(j)
            if rj is not None:
                d = cdist(pos_e[i], pos_g[j])
                if near_radius(d, rj):
                    ctx.skip("boundary_skipped")
                elif not d < rj:
                    ctx.violate("C01", "within_radius", "pair at distance beyond the matchable radius of the GT label",
                                {"distance": d, "radius": rj, "gt_label": lab_g[j]}, st.index)
                else:
                    ctx.probe("radius_checked")
        if any(v > 1 for v in used_e.values()):
            ctx.violate("C01", "one_to_one", "an estimate appears in more than one result", {}, st.index)
        if any(v > 1 for v in used_g.values()):
            ctx.violate("C01", "one_to_one", "a ground truth is paired with more than one estimate", {}, st.index)
        if not fpv:
            missing = [i for i, o in enumerate(ests) if id(o) not in used_e]
            if missing:
                ctx.violate("C01", "complete", "%d input estimate(s) missing from the results" % len(missing),
                            {"n_est": len(ests), "n_gt": len(gts)}, st.index)
        if pairs:
            ctx.probe("c01_nontrivial")

        # ---- C02 --------------------------------------------------------------------------------------
        if not ests or not gts:
            return
        dist = {}

        def score(i, j):
            if (i, j) not in dist:
                dist[(i, j)] = cdist(pos_e[i], pos_g[j])
            return dist[(i, j)]

        ambiguous = False

        def matchable(i, j):
            if fr_e[i] != fr_g[j]:
                return False
            rj = radius(j)
            return rj is None or score(i, j) < rj

        for i in range(len(ests)):
            for j in range(len(gts)):
                rj = radius(j)
                if fr_e[i] == fr_g[j] and rj is not None and near_radius(score(i, j), rj):
                    ambiguous = True
                if fr_e[i] == fr_g[j] and rj is not None and not score(i, j) < rj:
                    ctx.probe("radius_blocks_pair")
        if ambiguous:
            ctx.skip("c02_radius_boundary")
            return

        def compatible(i, j):
            return ref.ref_compatible(policy, lab_e[i], lab_g[j])

        blocks = ref.blocking_pairs(len(ests), len(gts), score, matchable, compatible, pairs, tol=max(1e-9, 2 * slack))
        if blocks:
            i, j = blocks[0]
            ctx.violate("C02", "no_blocking_pair", "a matchable %s pair is left although neither member has an equally good partner"
                        % ("compatible" if compatible(i, j) else "incompatible"),
                        {"est_label": lab_e[i], "gt_label": lab_g[j], "score": score(i, j), "n_blocking": len(blocks),
                         "policy": policy}, st.index)
        # exact greedy when no two candidate scores tie
        cand = sorted(score(i, j) for i in range(len(ests)) for j in range(len(gts)) if matchable(i, j))
        tie = any(b - a <= max(1e-9, 2 * slack) for a, b in zip(cand, cand[1:]))
        if tie:
            ctx.skip("c02_tie")
        else:
            want = ref.ref_match(len(ests), len(gts), score, matchable, compatible)
            if sorted(want) != sorted(pairs):
                ctx.violate("C02", "exact_greedy", "pairs differ from the two-stage greedy assignment",
                            {"want": want[:6], "got": pairs[:6], "policy": policy}, st.index)
            elif want != pairs:
                ctx.violate("C02", "exact_greedy", "pairs are produced in a different order than the two-stage greedy",
                            {"want": want[:6], "got": pairs[:6]}, st.index)
            ctx.probe("c02_exact_checked")
            if any(not compatible(i, j) for i, j in pairs):
                ctx.probe("stage2_cross_label_pair")
        for j in range(len(gts)):
            if sum(1 for i in range(len(ests)) if matchable(i, j)) >= 2:
                ctx.probe("contested_gt")
                break
        self._probe_other_modes(ctx, st, rec, ests, gts, fpv, policy, lab_e, lab_g, fr_e, fr_g)

    def _probe_other_modes(self, ctx, st, rec, ests, gts, fpv, policy, lab_e, lab_g, fr_e, fr_g):
        """Probe calls: the manager always pairs by centre distance, so the harness calls the real matcher again on
        the recorded inputs with the other three pairing criteria (scores read from the implementation)."""
        if len(ests) * len(gts) > 64:
            return
        from perception_eval.evaluation.matching import IOU2dMatching, IOU3dMatching, MatchingMode, PlaneDistanceMatching

        kw = rec["kwargs"]
        orig = X.original("manager", "get_object_results")
        dim2 = V.is_2d(ests[0])
        modes = ((MatchingMode.PLANEDISTANCE, PlaneDistanceMatching, True), (MatchingMode.IOU2D, IOU2dMatching, False),
                 (MatchingMode.IOU3D, IOU3dMatching, False))
        if dim2:
            modes = ((MatchingMode.IOU2D, None, False),)   # image objects: overlap of the ROIs, computed here
        for mode, cls, smaller in modes:
            kw2 = dict(kw)
            kw2["estimated_objects"] = list(ests)
            kw2["ground_truth_objects"] = list(gts)
            kw2["matching_mode"] = mode
            kw2["matchable_thresholds"] = None  # a radius is a distance notion
            try:
                out = orig(**kw2)
            except Exception as e:  # noqa
                ctx.violate("C01", "no_exception", "get_object_results(%s) raised %s on inputs the centre-distance call accepted" % (mode.value, type(e).__name__),
                            {"error": str(e)[:200]}, st.index)
                continue
            ctx.probe("c02_other_mode_probes")
            idx_e = {id(o): i for i, o in enumerate(ests)}
            idx_g = {id(o): j for j, o in enumerate(gts)}
            pairs, used_e, used_g, bad = [], set(), set(), False
            for r in out:
                e, g = r.estimated_object, r.ground_truth_object
                if id(e) not in idx_e or (g is not None and id(g) not in idx_g):
                    ctx.violate("C01", "nothing_foreign", "%s matching returns an object that was not in the input" % mode.value, {}, st.index)
                    bad = True
                    break
                if id(e) in used_e or (g is not None and id(g) in used_g):
                    ctx.violate("C01", "one_to_one", "%s matching uses an object twice" % mode.value, {}, st.index)
                    bad = True
                    break
                used_e.add(id(e))
                if g is not None:
                    used_g.add(id(g))
                    pairs.append((idx_e[id(e)], idx_g[id(g)]))
                    if fr_e[idx_e[id(e)]] != fr_g[idx_g[id(g)]]:
                        ctx.violate("C01", "same_frame_only", "%s matching pairs objects of different frames" % mode.value, {}, st.index)
                elif fpv:
                    ctx.violate("C01", "fp_validation_drops_unpaired", "%s matching keeps an unpaired estimate in FP validation" % mode.value, {}, st.index)
            if bad:
                continue
            if not fpv and len(used_e) != len(ests):
                ctx.violate("C01", "complete", "%s matching loses %d input estimate(s)" % (mode.value, len(ests) - len(used_e)), {}, st.index)
            cache = {}

            def score(i, j, cls=cls, smaller=smaller, cache=cache):
                if (i, j) not in cache:
                    if cls is None:
                        v = ref.roi_iou(V.roi_of(ests[i]), V.roi_of(gts[j]))
                    else:
                        v = cls(estimated_object=ests[i], ground_truth_object=gts[j], transforms=kw.get("transforms")).value
                    cache[(i, j)] = v if smaller else -v
                return cache[(i, j)]

            def matchable(i, j):
                return fr_e[i] == fr_g[j]

            def compatible(i, j):
                return ref.ref_compatible(policy, lab_e[i], lab_g[j])

            blocks = ref.blocking_pairs(len(ests), len(gts), score, matchable, compatible, pairs)
            if blocks:
                i, j = blocks[0]
                ctx.violate("C02", "no_blocking_pair", "%s matching leaves a matchable %s pair although neither member has an equally good partner"
                            % (mode.value, "compatible" if compatible(i, j) else "incompatible"),
                            {"score": abs(score(i, j)), "est_label": lab_e[i], "gt_label": lab_g[j], "policy": policy}, st.index)
                continue
            cand = sorted(score(i, j) for i in range(len(ests)) for j in range(len(gts)) if matchable(i, j))
            if not any(b - a <= 1e-9 for a, b in zip(cand, cand[1:])):
                want = ref.ref_match(len(ests), len(gts), score, matchable, compatible)
                if want != pairs:
                    ctx.violate("C02", "exact_greedy", "%s matching differs from the two-stage greedy assignment" % mode.value,
                                {"want": want[:6], "got": pairs[:6]}, st.index)
                ctx.probe("c02_other_mode_exact")


# ------------------------------------------------------------------------------------------------------
# C03
# ------------------------------------------------------------------------------------------------------


class C03Monitor(X.Monitor):
    def on_step(self, ctx, lane, st):
        if st.result is None:
            return
        R = ctx.R
        fr = st.result
        pf = fr.pass_fail_result
        results = fr.object_results
        gts = fr.frame_ground_truth.objects
        tp, fp, fn, tn = pf.tp_object_results, pf.fp_object_results, pf.fn_objects, pf.tn_objects
        ctx.probe("c03_steps")
        policy = V.plan_policy(ctx.plan["config"])   # as configured by the plan

        # --- results = TP + FP, each exactly once -----------------------------------------------------
        # entries are identified by their (estimate, ground truth) pair, not by the result object itself: an
        # implementation is free to build new result objects for its lists (it already does for stripped FPs)
        def key(r):
            return (id(r.estimated_object), None if r.ground_truth_object is None else id(r.ground_truth_object))

        count = {}
        for r in results:
            count[key(r)] = count.get(key(r), 0)
        if len(count) != len(results):
            ctx.violate("C03", "results_partition", "two surviving results share the same estimate / ground-truth pair", {}, st.index)
        fp_label_gt = {}
        for r in results:
            g = r.ground_truth_object
            if g is not None and V.label_of(g) == "false_positive":
                fp_label_gt.setdefault(id(r.estimated_object), []).append(key(r))
        for r in tp:
            if key(r) in count:
                count[key(r)] += 1
            else:
                ctx.violate("C03", "nothing_foreign", "TP list holds a result that did not survive the critical filter", {}, st.index)
        for r in fp:
            if key(r) in count:
                count[key(r)] += 1
                continue
            # an FP whose FP-labelled ground truth was stripped: matched by its estimate
            src = fp_label_gt.get(id(r.estimated_object), [])
            if r.ground_truth_object is None and len(src) == 1:
                count[src[0]] += 1
                ctx.probe("fp_labelled_gt_matched")
            else:
                ctx.violate("C03", "nothing_foreign", "FP list holds a result that did not survive the critical filter", {}, st.index)
        bad = [c for c in count.values() if c != 1]
        if bad:
            ctx.violate("C03", "results_partition", "a surviving result is reported %s" %
                        ("in neither TP nor FP" if 0 in bad else "more than once"),
                        {"n_results": len(results), "n_tp": len(tp), "n_fp": len(fp)}, st.index)
        if len(tp) + len(fp) != len(results):
            ctx.violate("C03", "results_partition", "results != TP + FP", {"n_results": len(results), "n_tp": len(tp), "n_fp": len(fp)}, st.index)

        # --- ground truth accounted exactly once --------------------------------------------------------
        gt_ids = set(_ids(gts))
        acc = {id(g): 0 for g in gts}
        for r in tp:
            g = r.ground_truth_object
            if g is None:
                ctx.violate("C03", "tp_is_justified", "TP without ground truth", {}, st.index)
            elif id(g) in acc:
                acc[id(g)] += 1
            else:
                ctx.violate("C03", "nothing_foreign", "TP ground truth is not a critical ground truth of this frame", {}, st.index)
        for g in fn:
            if id(g) in acc:
                acc[id(g)] += 1
            else:
                ctx.violate("C03", "nothing_foreign", "FN object is not a critical ground truth of this frame", {}, st.index)
        for g in tn:
            if id(g) in acc:
                acc[id(g)] += 1
            else:
                ctx.violate("C03", "nothing_foreign", "TN object is not a critical ground truth of this frame", {}, st.index)
        for r in fp:
            g = r.ground_truth_object
            if g is not None and V.label_of(g) == "false_positive":
                if id(g) in acc:
                    acc[id(g)] += 1
                else:
                    ctx.violate("C03", "nothing_foreign", "matched-FP ground truth is not a critical ground truth", {}, st.index)
            elif g is not None and id(g) not in gt_ids:
                # an ordinary GT kept on an FP result must still be a critical GT of this frame
                ctx.violate("C03", "nothing_foreign", "FP result keeps a ground truth that is not critical in this frame", {}, st.index)
        wrong = [(g, acc[id(g)]) for g in gts if acc[id(g)] != 1]
        if wrong:
            g, c = wrong[0]
            ctx.violate("C03", "gt_partition", "a critical ground truth (%s) is accounted %d times" %
                        ("FP-labelled" if V.label_of(g) == "false_positive" else "ordinary", c),
                        {"n_gt": len(gts), "n_tp": len(tp), "n_fn": len(fn), "n_tn": len(tn)}, st.index)
        ordinary = [g for g in gts if V.label_of(g) != "false_positive"]
        tp_ord = [r for r in tp if r.ground_truth_object is not None and V.label_of(r.ground_truth_object) != "false_positive"]
        fn_ord = [g for g in fn if V.label_of(g) != "false_positive"]
        if len(ordinary) != len(tp_ord) + len(fn_ord):
            ctx.violate("C03", "ordinary_gt_count", "ordinary critical ground truths != TP + FN",
                        {"ordinary": len(ordinary), "tp": len(tp_ord), "fn": len(fn_ord)}, st.index)
        if any(V.label_of(g) == "false_positive" for g in fn):
            ctx.violate("C03", "gt_partition", "FP-labelled ground truth in the FN list", {}, st.index)
        if any(V.label_of(g) != "false_positive" for g in tn):
            ctx.violate("C03", "gt_partition", "ordinary ground truth in the TN list", {}, st.index)

        # --- num_success / num_fail ------------------------------------------------------------------
        if pf.get_num_success() != len(tp) + len(tn) or pf.get_num_fail() != len(fp) + len(fn):
            ctx.violate("C03", "num_success_fail", "get_num_success/get_num_fail disagree with the list sizes", {}, st.index)

        # --- a TP is justified -----------------------------------------------------------------------
        pf_labels = [l.value for l in st.pf.target_labels]
        pf_thr = st.pf.matching_threshold_list
        if st.pf_spec.get("labels") is not None:
            # the per-label pass/fail thresholds as the plan configured them (labels None = "all labels": the family's own order)
            pf_labels = [V.canonical_label(l, bool(ctx.plan["config"]["merge"])) for l in st.pf_spec["labels"]]
            pf_thr = None if st.pf_spec.get("thr") is None else list(st.pf_spec["thr"])
        for r in tp:
            g = r.ground_truth_object
            if g is None:
                continue
            if not ref.ref_compatible(policy, V.label_of(r.estimated_object), V.label_of(g)):
                ctx.violate("C03", "tp_is_justified", "TP with label-incompatible ground truth",
                            {"est": V.label_of(r.estimated_object), "gt": V.label_of(g), "policy": policy}, st.index)
            if pf_thr is not None and V.label_of(g) in pf_labels:
                thr = pf_thr[pf_labels.index(V.label_of(g))]
                if V.is_2d(g):
                    # image objects pass on the overlap of the two ROIs (larger is better)
                    val = ref.roi_iou(V.roi_of(r.estimated_object), V.roi_of(g))
                    beats = val > thr
                    ctx.probe("c03_image_tp_checked")
                else:
                    val = r.plane_distance.value
                    beats = val is not None and val < thr
                if val is None:
                    ctx.violate("C03", "tp_is_justified", "TP without a pass/fail score", {}, st.index)
                elif ref.near(val, thr):
                    ctx.skip("boundary_skipped")
                elif not beats:
                    ctx.violate("C03", "tp_is_justified", "TP whose pass/fail score does not beat the threshold of its GT label",
                                {"score": val, "threshold": thr, "gt_label": V.label_of(g)}, st.index)
        # --- an FP-labelled ground truth is a *matched* FP exactly when its estimate beats the threshold of that label ----
        if pf_thr is not None and "false_positive" in pf_labels:
            t_fp = pf_thr[pf_labels.index("false_positive")]
            tn_ids = set(_ids(tn))
            matched_fp_ids = set(id(r.ground_truth_object) for r in fp if r.ground_truth_object is not None)
            for r in results:
                g = r.ground_truth_object
                if g is None or V.label_of(g) != "false_positive":
                    continue
                if V.is_2d(g):
                    val = ref.roi_iou(V.roi_of(r.estimated_object), V.roi_of(g))
                    beats = val > t_fp
                else:
                    val = r.plane_distance.value
                    beats = val is not None and val < t_fp
                if val is None or ref.near(val, t_fp):
                    ctx.skip("boundary_skipped")
                    continue
                ctx.probe("c03_fp_gt_pairs_judged")
                if beats and id(g) not in matched_fp_ids:
                    ctx.violate("C03", "matched_fp_is_matching", "an FP-labelled ground truth whose estimate beats the threshold of the false_positive label is not reported as a matched FP",
                                {"score": val, "threshold": t_fp, "in_tn": id(g) in tn_ids}, st.index)
                elif (not beats) and id(g) not in tn_ids:
                    ctx.violate("C03", "matched_fp_is_matching", "an FP-labelled ground truth whose estimate does not beat the threshold of the false_positive label is not a TN",
                                {"score": val, "threshold": t_fp, "matched_fp": id(g) in matched_fp_ids}, st.index)
        # --- region ---------------------------------------------------------------------------------
        params = V.plan_filter_params(ctx.plan["config"], st.crit_spec)   # the critical region as the plan configured it
        for kind, seq in (("TP", tp), ("FP", fp)):
            for r in seq:
                for o, is_gt in ((r.estimated_object, False), (r.ground_truth_object, True)):
                    if o is None:
                        continue
                    dec, margin = ref.ref_in_region(V.filter_view(o, st.ego_ref), is_gt, params)
                    if margin < st.eps:
                        ctx.skip("boundary_skipped")
                    elif not dec:
                        ctx.violate("C03", "region", "%s counts an %s outside the critical region (%s frame)" %
                                    (kind, "estimate" if not is_gt else "ground truth", V.frame_of(o)),
                                    {"view": V.filter_view(o, st.ego_ref), "params": _jsonable(params)}, st.index)
        for kind, seq in (("FN", fn), ("TN", tn)):
            for o in seq:
                dec, margin = ref.ref_in_region(V.filter_view(o, st.ego_ref), True, params)
                if margin < st.eps:
                    ctx.skip("boundary_skipped")
                elif not dec:
                    ctx.violate("C03", "region", "%s counts a ground truth outside the critical region (%s frame)" % (kind, V.frame_of(o)),
                                {"view": V.filter_view(o, st.ego_ref)}, st.index)
        if results and gts:
            ctx.probe("c03_nontrivial")
        if any(r.ground_truth_object is not None for r in fp):
            ctx.probe("fp_with_gt")


# ------------------------------------------------------------------------------------------------------
# C04 (and the within-step half of C08)
# ------------------------------------------------------------------------------------------------------

_MODE_ATTR = {"Center Distance": "center_distance", "Plane Distance": "plane_distance", "IoU 2D": "iou_2d", "IoU 3D": "iou_3d"}
_SMALLER_BETTER = {"Center Distance": True, "Plane Distance": True, "IoU 2D": False, "IoU 3D": False}


def bucket_of(r, target_labels):
    """Label bucket a result falls into: the estimate's label if targeted, else its ground truth's label."""
    lab = V.label_of(r.estimated_object)
    if lab in target_labels:
        return lab
    if r.ground_truth_object is not None:
        lab = V.label_of(r.ground_truth_object)
        if lab in target_labels:
            return lab
    return None


def result_score(r, mode_name):
    """(value, absolute slack) of a paired result's matching score under a mode.

    For boxes in space the value is read from the implementation (its exactness is not a claimed property); for image
    objects it is computed here from the two ROIs."""
    if r.ground_truth_object is None:
        return None, 0.0
    if V.is_2d(r.estimated_object):
        a, b = V.roi_of(r.estimated_object), V.roi_of(r.ground_truth_object)
        if mode_name == "Center Distance":
            return ref.roi_center_distance(a, b), ref.ROI_CENTER_SLACK
        if mode_name == "IoU 2D":
            return ref.roi_iou(a, b), 0.0
        return None, 0.0
    return V.score_value(r, _MODE_ATTR[mode_name]), 0.0


def tp_weight(ctx, r, label, mode_name, threshold, policy, aph):
    """(weight, near_boundary) for one ranked result under the statement's TP rule; weight 0.0 = not a TP.

    Returns (None, False) for an ignored result (its deciding label is not the evaluated one).
    """
    g = r.ground_truth_object
    deciding = V.label_of(g) if g is not None else V.label_of(r.estimated_object)
    if deciding != label:
        return None, False
    if g is None:
        return 0.0, False
    if not ref.ref_compatible(policy, V.label_of(r.estimated_object), V.label_of(g)):
        return 0.0, False
    val, slack = result_score(r, mode_name)
    if val is None:
        return 0.0, False
    nearb = ref.near(val, threshold) or (slack > 0 and not math.isinf(threshold) and abs(val - threshold) <= slack)
    ok = val < threshold if _SMALLER_BETTER[mode_name] else val > threshold
    if not ok:
        return 0.0, nearb
    if aph:
        return float(ctx.R["TPMetricsAph"]().get_value(r)), nearb
    return 1.0, nearb


def check_map(ctx, where, index, map_, frames_results, gt_counts, policy, level, prop="C04", cp=""):
    """Recompute one Map (all labels, AP and APH) from the observed per-frame results.

    frames_results: list of lists of object results in the order they were pooled.
    gt_counts: dict label -> observed ground-truth count.
    """
    labels = [l.value for l in map_.target_labels]
    mode_name = map_.matching_mode.value
    aps, aphs = [], []
    for k, lab in enumerate(labels):
        thr = map_.matching_threshold_list[k]
        pooled = []
        for fr_results in frames_results:
            pooled.extend(r for r in fr_results if bucket_of(r, labels) == lab)
        # stable descending confidence
        ranked = sorted(pooled, key=lambda r: -r.estimated_object.semantic_score)
        confs = [r.estimated_object.semantic_score for r in ranked]
        num_gt = gt_counts.get(lab, 0)
        for aph, holder, store in ((False, map_.aps, aps), (True, map_.aphs, aphs)):
            if aph and getattr(map_, "is_detection_2d", False) and not holder:
                continue   # image detection has no heading: no APH is computed
            ap_obj = holder[k]
            weights, boundary, ignored = [], False, 0
            for r in ranked:
                w, nb = tp_weight(ctx, r, lab, mode_name, thr, policy, aph)
                boundary = boundary or nb
                if aph and w:
                    # the heading agreement of a TP, from the two orientations themselves (both in one frame)
                    want_w = ref.ref_heading_agreement(V.quat_of(r.estimated_object), V.quat_of(r.ground_truth_object))
                    if want_w is None:
                        ctx.skip("c04_heading_of_tilted_box")
                    else:
                        ctx.probe("c04_heading_weight_checked")
                        if abs(want_w - w) > 1e-6:
                            ctx.violate(prop, cp + "heading_agreement", "%s APH weight of a TP is %r, its heading agreement is %r" % (level, w, want_w),
                                        {"est": V.quat_of(r.estimated_object), "gt": V.quat_of(r.ground_truth_object)}, index)
                if w is None:
                    ignored += 1
                    w = 0.0
                weights.append(w)
            if ignored:
                ctx.probe("ignored_result_in_ranking")
            want = ref.ref_ap(weights, num_gt)
            got = ap_obj.ap
            store.append(got)
            if ap_obj.num_ground_truth != num_gt:
                ctx.violate(prop, cp + "gt_count", "%s AP uses %d ground truths, %d observed for %s" % (level, ap_obj.num_ground_truth, num_gt, lab),
                            {}, index)
                continue
            if boundary:
                ctx.skip("boundary_skipped")
                continue
            tie_matters = any(confs[i] == confs[i + 1] and weights[i] != weights[i + 1] for i in range(len(confs) - 1))
            if want is None:
                ctx.probe("ap_undefined_label")
                if got != float("inf"):
                    ctx.violate(prop, cp + "ap_equals_area", "%s %s defined (%r) although there is no result for %s" % (level, "APH" if aph else "AP", got, lab), {}, index)
                continue
            if got == float("inf") or got != got:
                ctx.violate(prop, cp + "ap_equals_area", "%s %s undefined although results exist for %s" % (level, "APH" if aph else "AP", lab), {}, index)
                continue
            if prop == "C04" and not (-1e-9 <= got <= 1.0 + 1e-9):
                ctx.violate(prop, cp + "in_unit_interval", "%s %s = %r outside [0,1] (%s, %s)" % (level, "APH" if aph else "AP", got, mode_name, lab),
                            {"num_gt": num_gt, "n_results": len(ranked)}, index)
            if tie_matters:
                ctx.skip("c04_confidence_tie")
                continue
            if abs(got - want) > 1e-9:
                ctx.violate(prop, cp + "ap_equals_area", "%s %s differs from the interpolated PR area (%s, thr %s)" % (level, "APH" if aph else "AP", mode_name, thr),
                            {"got": got, "want": want, "weights": weights[:12], "num_gt": num_gt, "label": lab}, index)
            ctx.probe("c04_ap_checked")
            if len(ranked) >= 2 and num_gt >= 1:
                ctx.probe("c04_nontrivial")
        if prop == "C04" and aps[-1] != float("inf") and aphs and aphs[-1] != float("inf") and aphs[-1] > aps[-1] + 1e-9:
            ctx.violate(prop, cp + "aph_le_ap", "%s APH %r exceeds AP %r" % (level, aphs[-1], aps[-1]), {}, index)
    for name, vals, got in (("mAP", aps, map_.map), ("mAPH", aphs, map_.maph)):
        defined = [v for v in vals if v != float("inf")]
        want = sum(defined) / len(defined) if defined else float("inf")
        if (want == float("inf")) != (got == float("inf")) or (want != float("inf") and abs(want - got) > 1e-9):
            ctx.violate(prop, cp + "map_is_mean_of_defined", "%s %s = %r, mean of defined = %r" % (level, name, got, want), {}, index)
    return labels, mode_name, aps, aphs


_THR_KEY = {"center": "Center Distance", "plane": "Plane Distance", "iou2d": "IoU 2D", "iou3d": "IoU 3D"}


def configured_thresholds(plan_cfg):
    """{mode name: sorted list of per-label threshold tuples} as the plan configured them (spellings resolved here)."""
    n = len(plan_cfg["target_labels"])
    out = {}
    for key, spec in (plan_cfg.get("thresholds") or {}).items():
        if plan_cfg.get("dim") == 2 and key in ("plane", "iou3d"):
            continue
        rows = []
        if all(not isinstance(v, (list, tuple)) for v in spec):
            rows = [tuple([float(v)] * n) for v in spec]
        else:
            for row in spec:
                row = list(row)
                rows.append(tuple(float(v) for v in (row * n if len(row) == 1 else row)))
        out[_THR_KEY[key]] = sorted(rows)
    return out


def check_configured_thresholds(ctx, prop, index, scores, level, plan_cfg, kind):
    """Every score object is computed for exactly the matching modes and per-label thresholds that were configured."""
    want = configured_thresholds(plan_cfg)
    got = {}
    for sc in scores:
        if kind == "map":
            row = tuple(float(t) for t in sc.matching_threshold_list)
        else:
            row = tuple(float(c.matching_threshold_list[0]) for c in sc.clears)
        got.setdefault(sc.matching_mode.value, []).append(row)
    got = {k: sorted(v) for k, v in got.items()}
    want_labels = [V.canonical_label(l, bool(plan_cfg["merge"])) for l in plan_cfg["target_labels"]]
    for sc in scores:
        have = [l.value for l in sc.target_labels]
        if have != want_labels:
            ctx.violate(prop, "configured_thresholds", "%s %s score lists the labels %s, the per-label thresholds were configured for %s" % (
                level, sc.matching_mode.value, have, want_labels), {}, index)
            return
    if got != {k: v for k, v in want.items() if v}:
        ctx.violate(prop, "configured_thresholds", "%s scores are computed for %s, configured were %s" % (
            level, {k: len(v) for k, v in sorted(got.items())}, {k: len(v) for k, v in sorted(want.items())}),
            {"got": _jsonable(got), "configured": _jsonable(want)}, index)
    else:
        ctx.probe("configured_thresholds_checked")


class C04Monitor(X.Monitor):
    """AP/APH/mAP of every frame score and scene score; also feeds the within-step C08 clause."""

    def __init__(self, check_c08=True):
        self.check_c08 = check_c08

    def on_step(self, ctx, lane, st):
        if st.result is None:
            return
        fr = st.result
        maps = fr.metrics_score.maps
        if not maps:
            return
        policy = V.plan_policy(ctx.plan["config"])   # as configured by the plan
        gt_counts = {}
        for g in fr.frame_ground_truth.objects:
            gt_counts[V.label_of(g)] = gt_counts.get(V.label_of(g), 0) + 1
        check_configured_thresholds(ctx, "C04", st.index, maps, "frame", ctx.plan["config"], "map")
        summary = []
        for m in maps:
            summary.append((m,) + tuple(check_map(ctx, lane.name, st.index, m, [fr.object_results], gt_counts, policy, "frame")))
        self._clean_run_claims(ctx, lane, st, maps)
        if self.check_c08:
            check_threshold_monotone(ctx, st.index, summary, "frame")

    def on_scene(self, ctx, lane, manager, rec, index):
        score = rec["score"]
        if score is None or not score.maps:
            return
        policy = V.plan_policy(ctx.plan["config"])   # as configured by the plan
        frames = rec["delivered"]
        gt_counts = {}
        for fr in frames:
            for g in fr.frame_ground_truth.objects:
                gt_counts[V.label_of(g)] = gt_counts.get(V.label_of(g), 0) + 1
        check_configured_thresholds(ctx, "C04", index, score.maps, "scene", ctx.plan["config"], "map")
        summary = []
        for m in score.maps:
            summary.append((m,) + tuple(check_map(ctx, lane.name, index, m, [fr.object_results for fr in frames], gt_counts, policy, "scene")))
        if self.check_c08:
            check_threshold_monotone(ctx, index, summary, "scene")
        if len(frames) >= 2:
            ctx.probe("c04_scene_pooled")

    def _clean_run_claims(self, ctx, lane, st, maps):
        """Fault-free message on an exact stamp: every ground truth matched by a correct estimate -> AP = 1."""
        plan = ctx.plan
        if not plan.get("clean"):
            return
        # in a clean run the peer reports every live actor at its true pose with the right label
        fr = st.result
        if st.frame_kind != "loaded" or st.msg["sample"] != st.frame_index:
            return
        for m in maps:
            labels = [l.value for l in m.target_labels]
            for k, lab in enumerate(labels):
                ap = m.aps[k]
                n_gt = ap.num_ground_truth
                if n_gt == 0 or ap.objects_results_num == 0:
                    continue
                # only when every result of this bucket is a pair of equal labels at zero distance
                bucket = [r for r in fr.object_results if bucket_of(r, labels) == lab]
                perfect = all(
                    r.ground_truth_object is not None
                    and V.label_of(r.ground_truth_object) == V.label_of(r.estimated_object) == lab
                    and r.center_distance.value < 1e-6
                    for r in bucket
                ) and len(bucket) == n_gt
                if perfect and m.matching_mode.value == "Center Distance":
                    ctx.probe("c04_perfect_frame")
                    if abs(ap.ap - 1.0) > 1e-9:
                        ctx.violate("C04", "ap_is_one", "perfect detections of %s give AP %r" % (lab, ap.ap), {}, st.index)


def check_threshold_monotone(ctx, index, summary, level):
    """C08 (within one evaluation): for every matching mode with >= 2 thresholds, AP/APH/mAP are monotone."""
    by_mode = {}
    for m, labels, mode_name, aps, aphs in summary:
        by_mode.setdefault(mode_name, []).append((m, labels, aps, aphs))
    for mode_name, entries in by_mode.items():
        if len(entries) < 2:
            continue
        smaller = _SMALLER_BETTER[mode_name]
        for a in range(len(entries)):
            for b in range(len(entries)):
                if a == b:
                    continue
                ma, labels, aps_a, aphs_a = entries[a]
                mb, _, aps_b, aphs_b = entries[b]
                ta, tb = ma.matching_threshold_list, mb.matching_threshold_list
                # b is looser than a for every label?
                if not all((y >= x) if smaller else (y <= x) for x, y in zip(ta, tb)):
                    continue
                ctx.probe("c08_threshold_pairs")
                for k, lab in enumerate(labels):
                    for name, va, vb in (("AP", aps_a[k], aps_b[k]), ("APH", aphs_a[k] if aphs_a else None, aphs_b[k] if aphs_b else None)):
                        if va is None or va == float("inf") or vb == float("inf"):
                            continue
                        if vb < va - 1e-9:
                            ctx.violate("C08", "ap_monotone", "%s %s drops from %r to %r when the %s threshold is loosened" % (level, name, va, vb, mode_name),
                                        {"label": lab, "strict": ta[k], "loose": tb[k]}, index)
                for k, lab in enumerate(labels):
                    la, lb = ma.aps[k].tp_list, mb.aps[k].tp_list
                    if la and lb and len(la) == len(lb) and ma.aps[k].objects_results_num > 0:
                        if lb[-1] < la[-1] - 1e-9:
                            ctx.violate("C08", "tp_monotone", "%s TP count drops from %r to %r when the %s threshold is loosened" % (level, la[-1], lb[-1], mode_name),
                                        {"label": lab, "strict": ta[k], "loose": tb[k]}, index)
                        # prefix-wise: every ranked result that is a TP under the stricter threshold stays one
                        if any(y < x - 1e-9 for x, y in zip(la, lb)):
                            ctx.violate("C08", "tp_monotone", "%s: a ranked result is a TP under the stricter %s threshold only" % (level, mode_name),
                                        {"label": lab, "strict": ta[k], "loose": tb[k]}, index)
                if ma.map != float("inf") and mb.map != float("inf"):
                    # mAP is a mean over defined labels; the defined set is the same for both thresholds
                    if mb.map < ma.map - 1e-9:
                        ctx.violate("C08", "ap_monotone", "%s mAP drops from %r to %r when the %s threshold is loosened" % (level, ma.map, mb.map, mode_name),
                                    {}, index)
