"""Oracles against world truth: C16 (loading) and C17 (lookup / interpolation)."""
import math

from . import executor as X
from . import reference as ref
from . import refmath as rm
from . import views as V

POS_TOL = 1e-6
ANG_TOL = 1e-6
INTERP_ANG_TOL = 5e-6  # pyquaternion blends close quaternions linearly: up to ~1e-6 rad off the proportional angle


def _close(a, b, tol=POS_TOL):
    """Absolute tolerance with a small magnitude-dependent part (double rounding at map coordinates ~1e5 m)."""
    return all(abs(x - y) <= tol * (1.0 + 1e-3 * abs(y)) for x, y in zip(a, b))


def expected_tracked(actor, i, samples):
    """Indices of the preceding samples the devkit's window exposes (most recent first): follow the instance's
    previous annotations while less than 3 s (+0.15 s buffer) have elapsed, at most 6 of them."""
    out = []
    t0 = samples[i]["t"]
    k = i
    elapsed = 0.0
    while elapsed <= 3.15 and len(out) < 6:
        k -= 1
        while k >= 0 and actor["states"][k] is None:
            k -= 1
        if k < 0:
            break
        elapsed = abs(samples[k]["t"] - t0) / 1e6
        if elapsed < 3.15:
            out.append(k)
    return out


class C16Monitor(X.Monitor):
    def __init__(self, sensing_load=False):
        self.sensing_load = sensing_load
        self.first_digest = {}

    def on_load(self, ctx, lane, manager, generation):
        frames = manager.ground_truth_frames
        self.check_frames(ctx, lane, frames, lane.frame, lane.config.label_converter, lane.config.evaluation_task.value,
                          lane.token_map or {})
        dig = [V.frame_digest(f) for f in frames]
        key = lane.name
        if key in self.first_digest:
            ctx.probe("c16_reload")
            if dig != self.first_digest[key]:
                ctx.violate("C16", "reload_equal", "a second load of the same directory gives different frames", {})
        else:
            self.first_digest[key] = dig
        if self.sensing_load and generation == 0:
            self.load_sensing(ctx, lane)

    def load_sensing(self, ctx, lane):
        R = ctx.R
        for frame_name in ("base_link", "map"):
            conv = R["LabelConverter"]("sensing", bool(ctx.plan["config"]["merge"]), "autoware")
            try:
                frames = R["load_all_datasets"](
                    dataset_paths=[lane._dataset()],
                    evaluation_task=R["EvaluationTask"].SENSING,
                    label_converter=conv,
                    frame_id=R["FrameID"].BASE_LINK if frame_name == "base_link" else R["FrameID"].MAP,
                    load_raw_data=bool(ctx.plan["storage"].get("raw")),
                )
            except Exception as e:  # noqa
                ctx.violate("C16", "load_succeeds", "sensing load raised %s" % type(e).__name__, {"error": str(e)[:200]})
                continue
            ctx.probe("c16_sensing_load")
            self.check_frames(ctx, lane, frames, frame_name, conv, "sensing", lane.token_map or {})

    def check_frames(self, ctx, lane, frames, frame_name, converter, task, token_map):
        R = ctx.R
        plan = ctx.plan
        samples, actors = plan["world"]["samples"], plan["world"]["actors"]
        vis_mode = plan["storage"].get("visibility", "t4")
        ctx.probe("c16_loads")
        if plan["storage"].get("stamp_lag_us"):
            ctx.probe("c16_sensor_records_stamped_after_sample")
        if len(frames) != len(samples):
            ctx.violate("C16", "frames_in_order", "%d frames loaded for %d samples" % (len(frames), len(samples)), {})
            return
        for i, (f, s) in enumerate(zip(frames, samples)):
            if int(f.unix_time) != int(s["t"]):
                ctx.violate("C16", "frames_in_order", "frame %d carries time %r, sample has %r" % (i, f.unix_time, s["t"]), {})
                return
            if str(f.frame_name) != str(i):
                ctx.violate("C16", "frames_in_order", "frame %d is named %r" % (i, f.frame_name), {})
            ego = tuple(s["ego"])
            ego_q = rm.q_from_ypr(ego[3], *s.get("ego_rp", (0.0, 0.0)))
            if "ego_rp" in s:
                ctx.probe("c16_tilted_ego")
            # --- stored ego -> map transform ---------------------------------------------------------
            try:
                m = f.transforms[(R["FrameID"].BASE_LINK, R["FrameID"].MAP)].matrix
                rot = rm.q_matrix(ego_q)
                want = [rot[0] + [ego[0]], rot[1] + [ego[1]], rot[2] + [ego[2]], [0.0, 0.0, 0.0, 1.0]]
                if any(abs(float(m[r][cc]) - want[r][cc]) > 1e-6 * max(1.0, abs(want[r][cc])) for r in range(4) for cc in range(4)):
                    ctx.violate("C16", "ego2map_consistent", "stored ego->map transform differs from the sample's ego pose", {"frame": i})
            except KeyError:
                ctx.violate("C16", "ego2map_consistent", "frame has no ego->map transform", {"frame": i})
            present = [(ai, a) for ai, a in enumerate(actors) if a["states"][i] is not None]
            by_uuid = {}
            for o in f.objects:
                by_uuid.setdefault(o.uuid, []).append(o)
            want_uuids = sorted(token_map.get(a["token"], a["token"]) for _, a in present)
            got_uuids = sorted(o.uuid for o in f.objects)
            if want_uuids != got_uuids:
                ctx.violate("C16", "object_per_annotation", "frame %d: objects do not correspond one-to-one to the annotations" % i,
                            {"want": len(want_uuids), "got": len(got_uuids)})
                continue
            for ai, a in present:
                st = a["states"][i]
                o = by_uuid[token_map.get(a["token"], a["token"])][0]
                ctx.probe("c16_objects")
                want_label = converter.convert_label(a["category"]).label
                if o.semantic_label.label != want_label or o.semantic_label.name != a["category"]:
                    ctx.violate("C16", "object_fields", "label %s (name %r) for category %r, expected %s" %
                                (o.semantic_label.label, o.semantic_label.name, a["category"], want_label), {})
                if list(o.semantic_label.attributes or []) != list(a.get("attrs", [])):
                    ctx.violate("C16", "object_fields", "attributes %r, annotated %r" % (o.semantic_label.attributes, a.get("attrs")), {})
                if not _close(tuple(o.state.size), tuple(a["size"]), 1e-9):
                    ctx.violate("C16", "object_fields", "size %r, annotated %r" % (tuple(o.state.size), tuple(a["size"])), {})
                if o.pointcloud_num != st["npts"]:
                    ctx.violate("C16", "object_fields", "point count %r, annotated %r" % (o.pointcloud_num, st["npts"]), {})
                if int(o.unix_time) != int(s["t"]):
                    ctx.violate("C16", "object_fields", "object time %r differs from its sample's %r" % (o.unix_time, s["t"]), {})
                if V.frame_of(o) != frame_name:
                    ctx.violate("C16", "object_fields", "object frame %r, requested %r" % (V.frame_of(o), frame_name), {})
                if vis_mode == "none":
                    if o.visibility is not None:
                        ctx.violate("C16", "object_fields", "visibility %r although the table is empty" % (o.visibility,), {})
                else:
                    lv = st.get("vis") or "full"
                    if not isinstance(o.visibility, R["Visibility"]) or o.visibility.value != lv:
                        ctx.violate("C16", "object_fields", "visibility %r (%s), annotated level %r" %
                                    (o.visibility, type(o.visibility).__name__, lv), {"mode": vis_mode})
                # --- pose -----------------------------------------------------------------------------
                pose = tuple(st["pose"])
                q_map = rm.q_from_ypr(pose[3], *st["rp"]) if st.get("rp") else rm.q_from_yaw(pose[3])
                if frame_name == "map":
                    want_p, want_q, clause = pose[:3], q_map, "pose_map"
                else:
                    d = (pose[0] - ego[0], pose[1] - ego[1], pose[2] - ego[2])
                    want_p = rm.q_rotate(rm.q_conj(ego_q), d)
                    want_q = rm.q_mul(rm.q_conj(ego_q), q_map)
                    clause = "pose_ego"
                got_p, got_q = V.pos_of(o), V.quat_of(o)
                if not _close(got_p, want_p) or rm.q_angle_between(got_q, want_q) > ANG_TOL:
                    ctx.violate("C16", clause, "object pose differs from the annotation (%s frame)" % frame_name,
                                {"got": [got_p, got_q], "want": [want_p, want_q], "ego": ego})
                # --- tracking history -----------------------------------------------------------------
                if task == "tracking":
                    # The statement promises "the poses the same instance had in the preceding samples"; how far back the
                    # history reaches is the devkit's choice (3 s + buffer, 6 records) and not part of the statement.  So:
                    # every exposed state must be the instance's pose in a preceding sample, most recent first, without
                    # skipping one; and the history must not be empty when the instance was annotated in the sample before.
                    prev_idx = [k for k in range(i - 1, -1, -1) if a["states"][k] is not None]
                    path = o.tracked_path
                    if path is None:
                        ctx.violate("C16", "tracked_path", "tracking task but no tracked path on a ground-truth object", {"frame": i})
                    elif len(path) > len(prev_idx):
                        ctx.violate("C16", "tracked_path", "tracked path has %d states, the instance has only %d preceding annotations" %
                                    (len(path), len(prev_idx)), {"frame": i})
                    else:
                        devkit = expected_tracked(a, i, samples)
                        if len(path) != len(devkit):
                            ctx.probe("c16_tracked_window_differs_from_devkit")
                        # (the documented history window is 3 s: an earlier annotation at most 2.5 s old is inside any reading of it,
                        # whether or not the instance was visible in the sample directly before)
                        if not path and prev_idx and (s["t"] - samples[prev_idx[0]]["t"]) < 2_500_000:
                            ctx.violate("C16", "tracked_path", "empty tracked path although the instance was annotated %.2f s earlier" %
                                        ((s["t"] - samples[prev_idx[0]]["t"]) / 1e6), {"frame": i, "last_seen": prev_idx[0]})
                            if prev_idx[0] != i - 1:
                                ctx.probe("c16_reappearing_instance_judged")
                        if path:
                            ctx.probe("c16_tracked_states", len(path))
                        for stt, k in zip(path, prev_idx):
                            pk = tuple(a["states"][k]["pose"])
                            if not _close(tuple(stt.shape.size), tuple(a["size"]), 1e-9):
                                ctx.violate("C16", "tracked_path", "tracked state size differs from the annotation", {})
                            if frame_name == "map":
                                qk = rm.q_from_ypr(pk[3], *a["states"][k]["rp"]) if a["states"][k].get("rp") else rm.q_from_yaw(pk[3])
                                if not _close(tuple(stt.position), pk[:3]) or rm.q_angle_between(
                                    tuple(float(e) for e in stt.orientation.elements), qk
                                ) > ANG_TOL:
                                    ctx.violate("C16", "tracked_path", "tracked state is not the instance's pose in the corresponding preceding sample (most recent first, none skipped)",
                                                {"frame": i, "back": k})
                                    break


class C17Monitor(X.Monitor):
    """Nearest-in-tolerance lookup, and exact interpolation, judged on every lookup of every lane."""

    def on_lookup(self, ctx, lane, manager, query, frame):
        if query.get("exc") is not None:
            return  # ExceptionMonitor reports it
        frames = manager.ground_truth_frames
        ts = [int(f.unix_time) for f in frames]
        t, tol = query["t"], query["tol"]
        ctx.probe("c17_lookups")
        if not query["interp"]:
            idx = ref.ref_lookup(ts, t, tol)
            if idx is None:
                ctx.probe("lookup_none")
                if frame is not None:
                    ctx.violate("C17", "none_outside_tolerance", "a frame is returned although the closest one is %d us away (tolerance %d)"
                                % (min(abs(t - x) for x in ts), tol), {"query": _q(query)}, query["index"])
                return
            best = abs(t - ts[idx])
            ok = [i for i, x in enumerate(ts) if abs(t - x) == best]
            if frame is None:
                ctx.violate("C17", "nearest_in_tolerance", "nothing returned although a frame is %d us away (tolerance %d)" % (best, tol),
                            {"query": _q(query)}, query["index"])
            elif not any(frame is frames[i] for i in ok):
                got = query["frame_index"]
                ctx.violate("C17", "nearest_in_tolerance", "returned frame is not the closest loaded frame",
                            {"query": _q(query), "got_index": got, "want_index": idx,
                             "got_dt": None if got is None else abs(t - ts[got]), "want_dt": best}, query["index"])
            else:
                ctx.probe("lookup_hit")
            return
        # ---- interpolated lookup ----------------------------------------------------------------
        before, after = ref.ref_neighbours(ts, t, tol)
        if before is None and after is None:
            ctx.probe("lookup_none")
            if frame is not None:
                ctx.violate("C17", "neighbour_gating", "a frame is returned although no neighbour is within tolerance",
                            {"query": _q(query)}, query["index"])
            return
        if before is None or after is None:
            ctx.probe("lookup_single_neighbour")
            want = before if before is not None else after
            if frame is None:
                ctx.violate("C17", "neighbour_gating", "nothing returned although the %s neighbour is within tolerance" %
                            ("earlier" if before is not None else "later"), {"query": _q(query), "dt": abs(t - ts[want])}, query["index"])
            elif frame is not frames[want]:
                ctx.violate("C17", "neighbour_gating", "with one neighbour in tolerance that neighbour must be returned",
                            {"query": _q(query), "kind": query["kind"], "got_index": query["frame_index"], "want_index": want}, query["index"])
            return
        ctx.probe("interp_both_neighbours")
        if frame is None:
            ctx.violate("C17", "neighbour_gating", "nothing returned although both neighbours are within tolerance", {"query": _q(query)}, query["index"])
            return
        if query["kind"] == "loaded":
            # returning a neighbour itself is only right when the query time is that neighbour's own time and poses agree;
            # judged below through the pose clauses
            pass
        if int(frame.unix_time) != int(t):
            ctx.violate("C17", "stamp_is_query", "interpolated frame is stamped %r, query was %r" % (frame.unix_time, t), {}, query["index"])
        f1, f2 = frames[before], frames[after]
        t1, t2 = ts[before], ts[after]
        alpha = (t - t1) / (t2 - t1)
        ego1 = tuple(ctx.samples[before]["ego"]) if before < len(ctx.samples) else ctx.ego_for_time(t1)
        ego2 = tuple(ctx.samples[after]["ego"]) if after < len(ctx.samples) else ctx.ego_for_time(t2)
        ego_t = rm.interp_ego(ego1, ego2, alpha)
        o1 = {o.uuid: o for o in f1.objects}
        o2 = {o.uuid: o for o in f2.objects}
        want_ids = sorted(set(o1) | set(o2))
        got_ids = sorted(o.uuid for o in frame.objects)
        if want_ids != got_ids:
            ctx.violate("C17", "ids_union", "interpolated frame holds %d objects, the union of the neighbours holds %d" % (len(got_ids), len(want_ids)),
                        {"query": _q(query)}, query["index"])
            return
        if set(o1) ^ set(o2):
            ctx.probe("object_only_in_one_neighbour")
        for o in frame.objects:
            gp = V.map_pos(o, ego_t)
            gq = V.map_quat(o, ego_t)
            a, b = o1.get(o.uuid), o2.get(o.uuid)
            if a is not None and b is not None:
                p1, q1 = V.map_pos(a, ego1), V.map_quat(a, ego1)
                p2, q2 = V.map_pos(b, ego2), V.map_quat(b, ego2)
                wp, wq = ref.ref_interp_pose(p1, q1, p2, q2, alpha)
                clause = "pose_on_segment" if t != t1 else "endpoint_exact"
                ctx.probe("c17_interpolated_objects")
            else:
                src, ego_s = (a, ego1) if a is not None else (b, ego2)
                wp, wq = V.map_pos(src, ego_s), V.map_quat(src, ego_s)
                clause = "single_neighbour_object_kept"
            if not _close(gp, wp, 1e-5 if V.frame_of(o) == "base_link" else POS_TOL) or rm.q_angle_between(gq, wq) > INTERP_ANG_TOL:
                ctx.violate("C17", clause, "object pose is not at the proportional point between its two poses" if a is not None and b is not None
                            else "object present in one neighbour is not kept at its pose",
                            {"alpha": alpha, "got": [gp, gq], "want": [wp, wq], "frame_of_object": V.frame_of(o)}, query["index"])
                return

    def on_step(self, ctx, lane, st):
        # bounded progress: a delivery that found its frame and did not raise appends exactly one frame result
        if st.frame is not None and st.exc is None:
            if len(lane.manager.frame_results) != st.n_results_before + 1:
                ctx.violate("C17", "progress", "a delivery with a ground-truth frame did not yield one more frame result", {}, st.index)


def _q(query):
    return {k: query[k] for k in ("t", "tol", "interp")}
