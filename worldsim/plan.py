"""Plan generation: ONE integer decides everything.

`make_plan(seed, run, profile)` draws every choice of a simulated run -- world, storage layout, evaluator
configuration, every perception message with its injected faults, every clock reading, the transport
schedule and the driver's operations -- from one `random.Random`, in a fixed order, and returns a plain
JSON-serialisable dict.  The executor never draws randomness, so a plan replays exactly and can be shrunk by
deleting parts of it.
"""
import copy
import heapq
import math
import random

from . import refmath as rm

T0 = 1_600_000_000_000_000  # base unix time [us]

CATEGORIES_ORDINARY = [
    ("car", "car"),
    ("vehicle.car", "car"),
    ("Car", "car"),
    ("truck", "truck"),
    ("vehicle.truck", "truck"),
    ("bus", "bus"),
    ("bicycle", "bicycle"),
    ("vehicle.bicycle", "bicycle"),
    ("motorbike", "motorbike"),
    ("vehicle.motorcycle", "motorbike"),
    ("pedestrian", "pedestrian"),
    ("pedestrian.adult", "pedestrian"),
    ("animal", "unknown"),
    ("movable_object.barrier", "unknown"),
    ("weird.thing", "unknown"),  # not in the label table -> unknown
]
MERGE = {"truck": "car", "bus": "car", "motorbike": "bicycle"}
EST_LABELS = ["car", "truck", "bus", "bicycle", "motorbike", "pedestrian", "unknown"]
SIZES = {
    "car": (1.9, 4.6, 1.6),
    "truck": (2.5, 8.0, 3.2),
    "bus": (2.6, 11.5, 3.3),
    "bicycle": (0.6, 1.8, 1.5),
    "motorbike": (0.8, 2.1, 1.5),
    "pedestrian": (0.6, 0.7, 1.75),
    "unknown": (1.0, 1.2, 1.0),
    "false_positive": (1.5, 2.5, 1.5),
}
ALIASES = {
    "car": ["vehicle.car", "vehicle.police", "Car"],
    "truck": ["vehicle.truck", "trailer"],
    "bus": ["vehicle.bus", "Bus"],
    "bicycle": ["vehicle.bicycle"],
    "motorbike": ["motorcycle", "vehicle.motorcycle"],
    "pedestrian": ["pedestrian.adult", "stroller"],
    "unknown": ["animal", "forklift"],
}
ALIASES_MERGED = {"car": ["truck", "bus", "trailer", "vehicle.truck"], "bicycle": ["motorbike", "motorcycle"]}
TARGET_ALIAS = {"car": "vehicle.car", "truck": "vehicle.truck", "bus": "vehicle.bus", "bicycle": "vehicle.bicycle",
                "motorbike": "vehicle.motorcycle", "pedestrian": "pedestrian.adult"}
ATTRS = ["vehicle_state.moving", "vehicle_state.parked", "cycle_state.without_rider", "pedestrian_state.standing"]

FAULT_KINDS = [
    # perception content
    "miss", "ghost", "dup_detection", "label_flip", "label_unknown", "label_alias", "conf_tie", "conf_near_tie", "pose_noise",
    "yaw_flip", "size_noise", "wrong_frame_id",
    # tracker
    "id_new", "id_swap", "id_dup", "id_steal", "id_none",
    # clock
    "skew_offset", "drift", "jitter", "jump_back", "jump_forward", "stamp_edge",
    # transport
    "drop", "dup", "reorder", "delay",
    # driver
    "scene_query", "restart", "reeval", "analyze", "crit_change", "pf_change",
]

# ------------------------------------------------------------------------------------------------------
# profiles
# ------------------------------------------------------------------------------------------------------

BASE_PROFILE = {
    "tasks": {"detection": 5, "tracking": 4, "fp_validation": 1},
    "frames": {"base_link": 1, "map": 1},
    "max_samples": 14,
    "max_actors": 10,
    "fault_pool": FAULT_KINDS,
    "enable_p": 0.35,          # probability that a fault kind is enabled in a run
    "rate_lo": 0.03,
    "rate_hi": 0.15,
    "storm_p": 0.08,           # runs with very high rates
    "clean_p": 0.10,           # fault-free runs inside the mix
    "force": [],               # fault kinds always enabled
    "interp_p": 0.25,          # interpolated lookup (map-frame evaluators only)
    "fp_gt_p": 0.08,           # ordinary tasks with some FP-labelled ground truth
    "contested_p": 0.35,
    "narrow_crit_p": 0.3,
    "extra_lookups": 0,
    "twins": [],
    "analyze_p": 0.15,
    "multi_thr_p": 0.5,
    "small_ids": False,
    "merge_p": 0.3,
    "dup_labels_p": 0.3,
    "radii_list_p": 0.3,
    "far_p": 0.08,
    "dim2d_p": 0.0,            # camera worlds: 2D detection / tracking on image ROIs
    "sticky_label_p": 0.3,     # a misclassified track stays misclassified (classifier state kept per track)
    "idless_p": 0.03,          # tracking evaluated on a detector's output: no estimate carries an id
}

PROFILES = {
    "generic": {"dim2d_p": 0.15},
    "clean": {"clean_p": 1.0},
    "c13": {"dim2d_p": 0.12, "idless_p": 0.12, 
        "force": ["dup", "reeval", "scene_query", "crit_change", "dup_detection", "id_dup", "id_none"],
        "enable_p": 0.3,
        "narrow_crit_p": 0.6,
        "max_samples": 10,
        "interp_p": 0.4,
    },
    "c05": {"dim2d_p": 0.2, "idless_p": 0.05, "sticky_label_p": 0.5, 
        "tasks": {"tracking": 1},
        "clean_p": 0.3,
        "force": ["id_new", "id_swap", "id_steal", "label_alias", "miss", "label_unknown"],
        "merge_p": 0.45,
        "fault_pool": ["miss", "ghost", "label_flip", "label_unknown", "label_alias", "pose_noise", "id_new", "id_swap", "id_dup", "id_steal", "drop",
                       "reorder", "scene_query", "dup_detection"],
        "small_ids": True,
        "max_samples": 9,
        "max_actors": 5,
        "interp_p": 0.05,
        "fp_gt_p": 0.0,
    },
    "c17": {
        "far_p": 0.15,
        "obj_tilt_p": 0.15,
        "force": ["skew_offset", "jitter", "stamp_edge"],
        "fault_pool": ["skew_offset", "drift", "jitter", "jump_back", "jump_forward", "stamp_edge", "drop", "reorder",
                       "delay", "miss", "ghost"],
        "interp_p": 0.6,
        "extra_lookups": 12,
        "max_samples": 12,
    },
    "c07": {
        "far_p": 0.0,
        "obj_tilt_p": 0.1,
        "tasks": {"detection": 1, "tracking": 1},
        "fault_pool": [k for k in FAULT_KINDS if k != "wrong_frame_id"],
        "enable_p": 0.3,
        "interp_p": 0.0,
        "twins": ["frame"],
        "max_samples": 8,
    },
    "c03": {"dim2d_p": 0.2, "merge_p": 0.4, "dup_labels_p": 0.5, "narrow_crit_p": 0.6, "fp_gt_p": 0.2, "tasks": {"detection": 4, "tracking": 3, "fp_validation": 3}},
    "c16": {"stamp_lag_p": 0.4, "obj_tilt_p": 0.2, "far_p": 0.15, "raw_p": 0.3, "sibling_p": 0.5, "ego_tilt_p": 0.5, "max_samples": 24, "max_actors": 16, "enable_p": 0.1, "tasks": {"detection": 3, "tracking": 3, "fp_validation": 1}},
    "c19": {"sibling_p": 0.35, "analyze_p": 1.0, "force": ["analyze"], "fp_gt_p": 0.15, "max_samples": 10,
            "tasks": {"detection": 5, "tracking": 3, "fp_validation": 2}},
    "c01": {"dim2d_p": 0.2, "wide_scales": [250.0], "merge_p": 0.45, "dup_labels_p": 0.5, "radii_list_p": 0.55, "force": ["ghost", "dup_detection"], "contested_p": 0.7, "tasks": {"detection": 5, "tracking": 2, "fp_validation": 3},
            "fp_gt_p": 0.2},
    "c04": {"dim2d_p": 0.2, "obj_tilt_p": 0.12, "force": ["ghost", "label_flip", "conf_near_tie"], "multi_thr_p": 0.8, "tasks": {"detection": 3, "tracking": 2}},
    "c08": {"z_noise": True, "dim2d_p": 0.2, "force": ["dup", "pf_change", "pose_noise"], "multi_thr_p": 1.0, "tasks": {"detection": 3, "tracking": 2}},
    "c10": {"dim2d_p": 0.2, "force": ["ghost", "label_unknown", "crit_change"], "narrow_crit_p": 0.7, "fp_gt_p": 0.15},
    # camera worlds only (targeted runs: check.py --profile cam)
    "cam": {"dim2d_p": 1.0, "tasks": {"detection": 1, "tracking": 1}, "fp_gt_p": 0.1, "contested_p": 0.6, "multi_thr_p": 0.7,
            "fault_pool": [k for k in FAULT_KINDS if k not in ("yaw_flip", "analyze", "restart")]},
}


def get_profile(name):
    base, _, variant = name.partition(":")
    p = copy.deepcopy(BASE_PROFILE)
    p.update(copy.deepcopy(PROFILES[base]))
    if variant == "big":
        # deeper bounds of the thorough tier: long scenes, crowded frames, long operation histories
        p["max_samples"] = 40
        p["max_actors"] = 24
    p["name"] = name
    return p


def _wchoice(rng, weights):
    keys = list(weights)
    total = sum(weights[k] for k in keys)
    x = rng.random() * total
    for k in keys:
        x -= weights[k]
        if x <= 0:
            return k
    return keys[-1]


def _r(x, n=4):
    return round(x, n)


# ------------------------------------------------------------------------------------------------------
# world
# ------------------------------------------------------------------------------------------------------


def _make_timeline(rng, n):
    kind = rng.choice(["regular", "regular", "irregular", "gap"])
    period = rng.choice([50_000, 100_000, 100_000, 200_000, 500_000])
    ts = [T0 + rng.randrange(0, 10**9)]
    for i in range(1, n):
        if kind == "regular":
            dt = period
        elif kind == "irregular":
            dt = int(period * rng.uniform(0.5, 1.6))
        else:
            dt = period * (rng.choice([3, 5, 8]) if i == n // 2 else 1)
        ts.append(ts[-1] + max(1000, dt))
    return ts, period, kind


def _make_world(rng, prof, task, dim2=False):
    small = rng.random() < 0.45
    n = rng.randint(1, 5) if small else rng.randint(2, prof["max_samples"])
    ts, period, kind = _make_timeline(rng, n)
    ego = [rng.uniform(-500, 500), rng.uniform(-500, 500), rng.uniform(-5, 5), rng.uniform(-math.pi, math.pi)]
    if rng.random() < 0.1:
        ego = [0.0, 0.0, 0.0, 0.0]
    if rng.random() < prof.get("far_p", 0.0):
        # map coordinates far from the origin (MGRS / UTM like)
        ego[0] += rng.choice([-1, 1]) * rng.uniform(2e4, 9.5e4)
        ego[1] += rng.choice([-1, 1]) * rng.uniform(2e4, 9.5e4)
    hilly = rng.random() < 0.15
    speed = rng.choice([0.0, rng.uniform(0, 15)])
    tilt = rng.random() < prof.get("ego_tilt_p", 0.0)
    yaw_rate = rng.choice([0.0, rng.uniform(-0.4, 0.4)])
    samples = []
    pose = list(ego)
    for i, t in enumerate(ts):
        if i > 0:
            dt = (t - ts[i - 1]) * 1e-6
            pose[0] += speed * dt * math.cos(pose[3])
            pose[1] += speed * dt * math.sin(pose[3])
            pose[3] = rm.wrap(pose[3] + yaw_rate * dt)
            pose[2] += rng.uniform(-0.05, 0.05)
        samples.append({"t": t, "ego": [_r(pose[0]), _r(pose[1]), _r(pose[2]), _r(pose[3], 6)]})
        if tilt:
            # sloped / banked road: the ego pose is not a pure yaw (used by the loader check only)
            samples[-1]["ego_rp"] = [_r(rng.uniform(-0.15, 0.15), 5), _r(rng.uniform(-0.1, 0.1), 5)]

    fp_world = task == "fp_validation"
    fp_gt = (not fp_world) and rng.random() < prof["fp_gt_p"]
    n_act = rng.choice([0, 1, 2, 3]) if rng.random() < 0.35 else rng.randint(0, prof["max_actors"])
    actors = []
    range_scale = rng.choice([30.0, 60.0, 120.0] + list(prof.get("wide_scales", [])))
    for ai in range(n_act):
        if fp_world or (fp_gt and rng.random() < 0.3):
            cat, lab = "false_positive", "false_positive"
        else:
            cat, lab = rng.choice(CATEGORIES_ORDINARY)
        base = SIZES[lab]
        sk = rng.random()
        if sk < 0.08:
            size = (round(rng.uniform(0.05, 0.3), 3), round(rng.uniform(2, 12), 3), round(rng.uniform(0.5, 3), 3))
        else:
            size = tuple(round(b * rng.uniform(0.8, 1.25), 3) for b in base)
        # start pose relative to the ego at the first sample
        side_by_side = None
        if actors and rng.random() < prof["contested_p"]:
            other = rng.choice(actors)
            ref = next(st for st in other["states"] if st is not None)["pose"]
            p0 = [ref[0] + rng.uniform(-3, 3), ref[1] + rng.uniform(-3, 3), ref[2] + rng.uniform(-0.3, 0.3)]
            if rng.random() < 0.25:
                # two of a kind side by side: same class, heading, height and motion, a few decimetres apart
                side_by_side = other
                ang = rng.uniform(-math.pi, math.pi)
                dist = rng.uniform(0.15, 0.9)
                p0 = [ref[0] + dist * math.cos(ang), ref[1] + dist * math.sin(ang), ref[2]]
        else:
            rel = (rng.uniform(-range_scale, range_scale), rng.uniform(-range_scale, range_scale),
                   rng.uniform(-8, 8) if hilly else rng.uniform(-1, 1))
            if rng.random() < 0.08:
                rel = (rng.uniform(-3, 3), rng.uniform(-3, 3), rel[2])  # right next to (or above / below) the ego
            p0 = list(rm.ego_to_map(samples[0]["ego"], rel))
        yaw = rng.uniform(-math.pi, math.pi)
        if rng.random() < 0.15:
            yaw = rng.choice([0.0, math.pi / 2, math.pi, -math.pi / 2, math.pi - 1e-3, -math.pi + 1e-3])
        v = rng.choice([0.0, rng.uniform(0, 12)])
        if rng.random() < 0.1:
            v = rng.uniform(0.001, 0.05)  # creeping: millimetres per frame
        w = rng.choice([0.0, 0.0, rng.uniform(-0.8, 0.8)])
        first = 0 if rng.random() < 0.7 else rng.randrange(0, n)
        last = n - 1 if rng.random() < 0.7 else rng.randrange(first, n)
        hole = rng.randrange(first, last + 1) if (last - first >= 2 and rng.random() < 0.1) else None
        if side_by_side is not None:
            cat, lab = side_by_side["category"], side_by_side["label"]
            yaw, v, w = side_by_side["_motion"]
            size = tuple(side_by_side["size"])
        attrs = [a for a in ATTRS if rng.random() < 0.08]
        tilt_rp = None
        if rng.random() < prof.get("obj_tilt_p", 0.0):
            tilt_rp = [_r(rng.uniform(-0.2, 0.2), 5), _r(rng.uniform(-0.15, 0.15), 5)]  # annotated box not level (pitch, roll)
        states = []
        pose = [p0[0], p0[1], p0[2], yaw]
        for i, s in enumerate(samples):
            if i > 0:
                dt = (s["t"] - samples[i - 1]["t"]) * 1e-6
                pose[0] += v * dt * math.cos(pose[3])
                pose[1] += v * dt * math.sin(pose[3])
                pose[3] = rm.wrap(pose[3] + w * dt)
            if first <= i <= last and i != hole:
                states.append(
                    {
                        "pose": [_r(pose[0]), _r(pose[1]), _r(pose[2]), _r(pose[3], 6)],
                        "npts": rng.choice([0, 1, 3, 10, 50, 400]) if rng.random() < 0.5 else rng.randrange(0, 500),
                        "vis": rng.choice(["full", "most", "partial", "none"]),
                        "qneg": rng.random() < 0.15,
                    }
                )
                if tilt_rp:
                    states[-1]["rp"] = tilt_rp
            else:
                states.append(None)
        actors.append(
            {
                "_motion": (yaw, v, w),
                "token": "inst%03d_%s" % (ai, "%08x" % rng.getrandbits(32)),
                "category": cat,
                "label": lab,
                "size": list(size),
                "attrs": attrs,
                "states": states,
            }
        )
    for a in actors:
        del a["_motion"]
    world = {"samples": samples, "actors": actors, "period": period, "timeline": kind}
    if dim2:
        _add_camera_tracks(rng, world, prof)
    return world


CAMERAS = ["CAM_FRONT", "CAM_BACK", "CAM_FRONT_LEFT", "CAM_FRONT_RIGHT", "CAM_BACK_LEFT", "CAM_BACK_RIGHT"]
ROI_SIZES = {"car": (160, 110), "truck": (260, 200), "bus": (320, 230), "bicycle": (70, 90), "motorbike": (80, 90),
             "pedestrian": (45, 120), "unknown": (60, 60), "false_positive": (90, 90)}
IMG_W, IMG_H = 1920, 1080


def _add_camera_tracks(rng, world, prof):
    """Camera world: every actor is seen by one camera as an image ROI (x, y, w, h in whole pixels) that moves and
    grows linearly from sample to sample.  (The 3D poses stay in the plan but are not written to a 2D dataset.)"""
    cams = rng.sample(CAMERAS, rng.randint(1, 3))
    world["dim"] = 2
    world["cams"] = cams
    placed = []
    for a in world["actors"]:
        cam = rng.choice(cams)
        bw, bh = ROI_SIZES[a["label"]]
        k = rng.uniform(0.3, 1.6)
        w, h = max(2, int(bw * k)), max(2, int(bh * k))
        if rng.random() < 0.06:
            w, h = rng.randint(1, 4), rng.randint(1, 4)          # a few pixels only
        same = [p for p in placed if p[0] == cam]
        if same and rng.random() < prof["contested_p"]:
            _, ox, oy, ow, oh = rng.choice(same)
            x, y = ox + rng.randint(-ow // 2 - 1, ow // 2 + 1), oy + rng.randint(-oh // 2 - 1, oh // 2 + 1)
            if rng.random() < 0.25:
                w, h = ow, oh                                        # two of a kind, overlapping
        else:
            x, y = rng.randint(0, IMG_W - w), rng.randint(0, IMG_H - h)
        x, y = max(0, x), max(0, y)
        placed.append((cam, x, y, w, h))
        vx, vy = rng.choice([0, 0, rng.randint(-40, 40)]), rng.choice([0, 0, rng.randint(-15, 15)])
        grow = rng.choice([0, 0, rng.randint(-6, 10)])
        # hand-over: the target leaves one camera's field of view and shows up in another one's
        n_s = len(a["states"])
        hand = rng.randrange(1, n_s) if (len(cams) >= 2 and n_s >= 2 and rng.random() < 0.3) else None
        cam2 = rng.choice([c for c in cams if c != cam]) if hand is not None else None
        x2, y2 = rng.randint(0, IMG_W - w), rng.randint(0, IMG_H - h)
        for i, st in enumerate(a["states"]):
            if st is None:
                continue
            wi, hi = max(1, w + grow * i), max(1, h + (grow * i * h) // max(1, w))
            if hand is not None and i >= hand:
                st["roi"] = [max(0, x2 + vx * (i - hand)), max(0, y2 + vy * (i - hand)), wi, hi]
                st["cam"] = cam2
            else:
                st["roi"] = [max(0, x + vx * i), max(0, y + vy * i), wi, hi]
                st["cam"] = cam
        # overlapping fields of view: the same instance is annotated in a second camera as well (same instance token)
        if len(cams) >= 2 and hand is None and rng.random() < 0.12:
            cam_b = rng.choice([c for c in cams if c != cam])
            xb, yb = rng.randint(0, IMG_W - w), rng.randint(0, IMG_H - h)
            for i, st in enumerate(a["states"]):
                if st is not None and rng.random() < 0.8:
                    st["also"] = {"roi": [max(0, xb + vx * i), max(0, yb + vy * i), st["roi"][2], st["roi"][3]], "cam": cam_b}


def _make_storage(rng, prof):
    st = {
        "lidar": rng.choice(["LIDAR_TOP", "LIDAR_TOP", "LIDAR_CONCAT"]),
        "visibility": rng.choice(["t4", "t4", "alias", "none"]),
        "extra_sensors": [],
        "order": {},
        "extra_categories": [],
    }
    if rng.random() < 0.4:
        pool = [
            ("CAM_FRONT", "camera"),
            ("CAM_BACK", "camera"),
            ("RADAR_FRONT", "radar"),
            ("RADAR_BACK", "radar"),
            ("RADAR_BACK_LEFT", "radar"),
            ("CAM_TRAFFIC_LIGHT_NEAR", "camera"),
        ]
        for ch, mod in rng.sample(pool, rng.randint(1, 3)):
            st["extra_sensors"].append(
                {
                    "channel": ch,
                    "modality": mod,
                    "trans": [_r(rng.uniform(-2, 4)), _r(rng.uniform(-1, 1)), _r(rng.uniform(0, 2))],
                    "yaw": _r(rng.uniform(-math.pi, math.pi), 6),
                }
            )
    for tb in ("category", "attribute", "visibility", "sensor", "calibrated_sensor", "sample_data", "ego_pose",
               "instance", "sample_annotation"):
        if rng.random() < 0.35:
            st["order"][tb] = {"rot": rng.randrange(0, 50), "rev": rng.random() < 0.5}
    if rng.random() < 0.2:
        st["extra_categories"] = ["static_object.bollard"]
    if rng.random() < prof.get("raw_p", 0.0):
        st["raw"] = True          # raw sensor files exist and the evaluator is asked to load them
    if st["extra_sensors"] and rng.random() < 0.5:
        # as in real recordings every sensor's record has its own ego pose (slightly different capture time)
        st["sensor_ego_offset"] = [_r(rng.uniform(0.1, 0.6)), _r(rng.uniform(-0.2, 0.2)), _r(rng.uniform(-0.02, 0.02), 4)]
    if prof.get("stamp_lag_p"):
        # sensor records (and their ego poses) stamped a little after the sample they belong to, as when a sweep is stamped at
        # the end of its rotation: the frame's time is the sample's.  Drawn from a fork of the stream so that every other
        # decision of the plan is the one it was before this dimension existed.
        fork = random.Random()
        fork.setstate(rng.getstate())
        if fork.random() < prof["stamp_lag_p"]:
            st["stamp_lag_us"] = [fork.choice([0, fork.randrange(1, 2000), fork.randrange(2000, 60000)]) for _ in range(8)]
            if not any(st["stamp_lag_us"]):
                st["stamp_lag_us"][fork.randrange(8)] = fork.randrange(2000, 60000)
    return st


# ------------------------------------------------------------------------------------------------------
# evaluator configuration
# ------------------------------------------------------------------------------------------------------


def _thr_spec(rng, n_labels, lo, hi, multi_p, edge=None):
    """A threshold specification in one of the accepted spellings, avoiding the flat-list/per-label ambiguity."""
    n_thr = 1 if rng.random() > multi_p else rng.randint(2, 3)
    vals = sorted(_r(rng.uniform(lo, hi), 3) for _ in range(n_thr))
    if edge is not None and rng.random() < (0.15 if edge == 0.0 else 0.08):
        vals[rng.randrange(len(vals))] = edge  # a legal extreme threshold (IoU 0.0: any overlap counts; distance inf: any distance)
        vals = sorted(set(vals))
        n_thr = len(vals)
    if edge == 0.0 and rng.random() < 0.1:
        vals[-1] = 1.0                          # the other legal extreme of an IoU threshold: nothing short of identity counts
        vals = sorted(set(vals))
        n_thr = len(vals)
    if rng.random() < 0.3:
        rng.shuffle(vals)
    if rng.random() < 0.1:
        vals = [int(v) if (not math.isinf(v) and v >= 1.0) else v for v in vals]   # integers are legal thresholds
        vals = sorted(set(vals), key=float)
        n_thr = len(vals)
    spelling = rng.choice(["flat", "nested", "nested_per_label"])
    if spelling == "flat" and n_thr != n_labels:
        return list(vals)
    if spelling == "nested_per_label":
        return [[v if math.isinf(v) else _r(min(hi, max(lo, v * rng.uniform(0.7, 1.3))), 3) for _ in range(n_labels)] for v in vals]
    return [[v] for v in vals]


def _range_spec(rng, n_labels, scale):
    if rng.random() < 0.6:
        def one():
            return _r(rng.uniform(0.3, 1.3) * scale, 2)
        if rng.random() < 0.5:
            return {"kind": "xy", "max_x": one(), "max_y": one()}
        return {"kind": "xy", "max_x": [one() for _ in range(n_labels)], "max_y": [one() for _ in range(n_labels)]}
    mx = _r(rng.uniform(0.4, 1.5) * scale, 2)
    mn = rng.choice([0.0, 0.0, _r(rng.uniform(0.5, 0.3 * scale), 2)])
    if rng.random() < 0.12:
        mn = rng.choice([-1.0, -0.01, _r(-rng.uniform(0.5, 5.0), 2)])   # "no lower bound", written as a negative distance
    if rng.random() < 0.5:
        return {"kind": "dist", "max": mx, "min": mn}
    return {"kind": "dist", "max": [_r(mx * rng.uniform(0.6, 1.2), 2) for _ in range(n_labels)], "min": mn}


def _crit_spec(rng, cfg, scale, narrow, tokens=()):
    spec = _crit_spec_inner(rng, cfg, scale, narrow)
    if tokens and rng.random() < (0.3 if cfg.get("dim") == 2 else 0.1):
        # a per-frame critical filter may single out ground truths by their ids
        spec["target_uuids"] = sorted(rng.sample(list(tokens), rng.randint(1, max(1, len(tokens) - 1))))
    return spec


def _crit_spec_inner(rng, cfg, scale, narrow):
    labels = list(cfg["target_labels"])
    if rng.random() < 0.3:
        rng.shuffle(labels)
    n = len(labels)
    extra_label = None
    if rng.random() < 0.1:
        # the critical filter may name more labels than the evaluator targets
        cand = [l for l in ["car", "truck", "bus", "bicycle", "motorbike", "pedestrian"] if l not in labels and TARGET_ALIAS.get(l) not in labels]
        if cand and not cfg["merge"]:
            extra_label = rng.choice(cand)
    f = rng.uniform(0.15, 0.7) if narrow else rng.uniform(0.8, 2.5)
    if cfg.get("dim") == 2:
        # image objects have no position relative to the ego: the critical filter is labels / confidence / attributes only
        spec = {"labels": labels + ([extra_label] if extra_label else []), "range": None}
        m = len(spec["labels"])
        if rng.random() < (0.5 if narrow else 0.2):
            spec["conf_thr"] = [_r(rng.uniform(0.0, 0.7), 3) for _ in range(m)]
        if rng.random() < 0.15:
            spec["ignore_attrs"] = [rng.choice(ATTRS)]
        return spec
    if rng.random() < 0.6:
        rg = {
            "kind": "xy",
            "max_x": [_r(scale * f * rng.uniform(0.7, 1.3), 2) for _ in range(n)],
            "max_y": [_r(scale * f * rng.uniform(0.7, 1.3), 2) for _ in range(n)],
        }
    else:
        rg = {
            "kind": "dist",
            "max": [_r(scale * f * rng.uniform(0.7, 1.3), 2) for _ in range(n)],
            "min": [rng.choice([0.0, 0.0, _r(rng.uniform(0.5, 0.25 * scale), 2), -1.0 if rng.random() < 0.3 else 0.0]) for _ in range(n)],
        }
    spec = {"labels": labels, "range": rg}
    if extra_label:
        spec["labels"] = labels + [extra_label]
        for key in ("max_x", "max_y", "max", "min"):
            if key in rg:
                rg[key] = rg[key] + [rg[key][0]]
    m = len(spec["labels"])
    if rng.random() < 0.2:
        spec["min_pts"] = [rng.choice([0, 1, 5, 20]) for _ in range(m)]
    if rng.random() < 0.15:
        spec["conf_thr"] = [_r(rng.uniform(0.0, 0.6), 3) for _ in range(m)]
    if rng.random() < 0.1:
        spec["ignore_attrs"] = [rng.choice(ATTRS)]
    return spec


def _pf_spec(rng, cfg, factor=1.0):
    labels = list(cfg["target_labels"])
    if rng.random() < 0.2:
        rng.shuffle(labels)
    if rng.random() < (0.4 if cfg["task"] == "fp_validation" else 0.1):
        # a pass/fail threshold for the false_positive label itself: an estimate closer than this to an FP-labelled
        # ground truth is a "matched FP", farther away the ground truth is a TN
        labels.insert(rng.randrange(len(labels) + 1), "false_positive")
    if rng.random() < 0.08:
        return {"labels": labels, "thr": None}
    if cfg.get("dim") == 2:
        # 2D pass/fail is judged on IoU: thresholds in [0, 1), larger is stricter
        return {"labels": labels, "thr": [rng.choice([0.0, 0.5, 1.0]) if rng.random() < 0.12 else _r(rng.uniform(0.02, 0.95), 3) for _ in labels]}
    if rng.random() < 0.06:
        # "no target labels" = every label of the family, one threshold each (9 autoware labels)
        return {"labels": None, "thr": [_r(rng.uniform(0.4, 4.0) * factor, 3) for _ in range(9)]}
    return {"labels": labels, "thr": [_r(rng.uniform(0.4, 4.0) * factor, 3) for _ in labels]}


def _make_config(rng, prof, world):
    task = world["_task"]
    merge = rng.random() < prof["merge_p"]
    pool = ["car", "bicycle", "pedestrian", "unknown"] if merge else ["car", "truck", "bus", "bicycle", "motorbike", "pedestrian", "unknown"]
    if merge and rng.random() < prof["dup_labels_p"]:
        # merging switched on while the target list still names the unmerged classes: several entries collapse onto one
        # label (legal; the first entry of a label is the one whose thresholds apply)
        pool = ["car", "truck", "bus", "bicycle", "motorbike", "pedestrian", "unknown"]
    k = rng.randint(1, min(4, len(pool)))
    if prof.get("small_ids"):
        k = rng.randint(1, 3)
    labels = rng.sample(pool, k)
    if merge and len(pool) == 7 and rng.random() < 0.6:
        # make sure two entries really collapse onto one label (with their own thresholds / radii each)
        pair = list(rng.choice([("car", "truck"), ("truck", "car"), ("car", "bus"), ("bus", "truck"), ("bicycle", "motorbike"), ("motorbike", "bicycle")]))
        labels = pair + [l for l in labels if l not in pair][: max(0, k - 2)]
        if rng.random() < 0.5:
            rng.shuffle(labels)
    if "unknown" in labels and rng.random() < 0.7:
        labels.remove("unknown")
        if not labels:
            labels = ["car"]
    # make sure the world's dominant label is usually targeted
    present = [MERGE.get(a["label"], a["label"]) if merge else a["label"] for a in world["actors"]]
    present = [p for p in present if p in pool]
    if present and rng.random() < 0.8:
        top = max(sorted(set(present)), key=present.count)
        if top not in labels:
            labels[0] = top
    if rng.random() < 0.15:
        labels = [TARGET_ALIAS.get(l, l) if rng.random() < 0.5 else l for l in labels]  # registered alias spellings
    if task == "fp_validation" and rng.random() < 0.25:
        labels.insert(rng.randrange(len(labels) + 1), "false_positive")   # the FP label itself may be a target (with its own radius)
    n = len(labels)
    if world.get("dim") == 2:
        return _make_config_2d(rng, prof, world, task, labels, merge)
    frame = _wchoice(rng, prof["frames"])
    scale = rng.choice([30.0, 60.0, 120.0] + list(prof.get("wide_scales", [])))
    cfg = {
        "task": task,
        "frame": frame,
        "frame_upper": rng.random() < 0.15,   # the frame id may be spelled in upper case
        "target_labels": labels,
        "merge": merge,
        "range": _range_spec(rng, n, scale),
        "scale": scale,
    }
    pol = rng.random()
    if pol < 0.3:
        cfg["policy"] = None
        cfg["allow_unknown_flag"] = rng.random() < 0.5
    else:
        cfg["policy"] = rng.choice(["DEFAULT", "ALLOW_UNKNOWN", "ALLOW_ANY", "allow_unknown"])
    r = rng.random()
    if r < prof["radii_list_p"]:
        cfg["radii"] = [_r(rng.uniform(0.5, 8.0), 2) for _ in range(n)]
    elif r < prof["radii_list_p"] + 0.35:
        cfg["radii"] = _r(rng.uniform(0.5, 8.0), 2)
    else:
        cfg["radii"] = None
    if task == "detection" or rng.random() < 0.3:
        cfg["min_pts"] = rng.choice([0, 0, [rng.choice([0, 1, 5, 20]) for _ in range(n)]])
    else:
        cfg["min_pts"] = None
    cfg["conf_thr"] = None if rng.random() < 0.75 else rng.choice([_r(rng.uniform(0, 0.5), 3), [_r(rng.uniform(0, 0.5), 3) for _ in range(n)]])
    cfg["ignore_attrs"] = None if rng.random() < 0.8 else [rng.choice(ATTRS)]
    cfg["target_uuids"] = None
    if world["actors"] and rng.random() < 0.07:
        cfg["target_uuids"] = [a["token"] for a in rng.sample(world["actors"], max(1, len(world["actors"]) // 2))]
    thr = {}
    if task != "fp_validation":
        mp = prof["multi_thr_p"]
        thr["center"] = _thr_spec(rng, n, 0.3, 4.0, mp, edge=float("inf"))   # "any distance" is a legal threshold
        if rng.random() < 0.7:
            thr["plane"] = _thr_spec(rng, n, 0.3, 4.0, mp, edge=float("inf"))
        if rng.random() < 0.6:
            thr["iou2d"] = _thr_spec(rng, n, 0.05, 0.8, mp, edge=0.0)
        if rng.random() < 0.5:
            thr["iou3d"] = _thr_spec(rng, n, 0.05, 0.8, mp, edge=0.0)
    cfg["thresholds"] = thr
    return cfg


def _make_config_2d(rng, prof, world, task, labels, merge):
    n = len(labels)
    cams = list(world["cams"])
    k = rng.randint(1, len(cams))
    use = rng.sample(cams, k)
    if rng.random() < 0.15:
        spare = [c for c in CAMERAS if c not in cams]
        use.insert(rng.randrange(len(use) + 1), rng.choice(spare))   # a configured camera the recording does not have
    cfg = {
        "task": task,
        "dim": 2,
        "frame": [c.lower() for c in use],
        "frame_single": len(use) == 1 and rng.random() < 0.5,      # one camera may be given as a plain string
        "frame_upper": rng.random() < 0.15,
        "target_labels": labels,
        "merge": merge,
        "range": None,
        "scale": 150.0,
    }
    pol = rng.random()
    if pol < 0.3:
        cfg["policy"] = None
        cfg["allow_unknown_flag"] = rng.random() < 0.5
    else:
        cfg["policy"] = rng.choice(["DEFAULT", "ALLOW_UNKNOWN", "ALLOW_ANY", "allow_unknown"])
    r = rng.random()
    if r < prof["radii_list_p"]:
        cfg["radii"] = [_r(rng.uniform(4.0, 200.0), 1) for _ in range(n)]
    elif r < prof["radii_list_p"] + 0.35:
        cfg["radii"] = _r(rng.uniform(4.0, 200.0), 1)
    else:
        cfg["radii"] = None
    cfg["min_pts"] = None
    cfg["conf_thr"] = None if rng.random() < 0.7 else rng.choice([_r(rng.uniform(0, 0.5), 3), [_r(rng.uniform(0, 0.5), 3) for _ in range(n)]])
    cfg["ignore_attrs"] = None if rng.random() < 0.8 else [rng.choice(ATTRS)]
    cfg["target_uuids"] = None
    if world["actors"] and rng.random() < 0.07:
        cfg["target_uuids"] = [a["token"] for a in rng.sample(world["actors"], max(1, len(world["actors"]) // 2))]
    mp = prof["multi_thr_p"]
    thr = {"center": _thr_spec(rng, n, 3.0, 150.0, mp, edge=float("inf"))}
    if rng.random() < 0.85:
        thr["iou2d"] = _thr_spec(rng, n, 0.05, 0.9, mp, edge=0.0)
    cfg["thresholds"] = thr
    return cfg


# ------------------------------------------------------------------------------------------------------
# perception peer, clock, transport, driver
# ------------------------------------------------------------------------------------------------------


def _truth_pose_at(actor, samples, t):
    """Actor pose in the map at time t (world model: piecewise linear between samples); None if absent."""
    ts = [s["t"] for s in samples]
    for i, ti in enumerate(ts):
        if ti == t:
            st = actor["states"][i]
            return None if st is None else tuple(st["pose"])
    for i in range(len(ts) - 1):
        if ts[i] < t < ts[i + 1]:
            a, b = actor["states"][i], actor["states"][i + 1]
            if a is None and b is None:
                return None
            if a is None:
                return tuple(b["pose"])
            if b is None:
                return tuple(a["pose"])
            al = (t - ts[i]) / (ts[i + 1] - ts[i])
            pa, pb = a["pose"], b["pose"]
            d = rm.wrap(pb[3] - pa[3])
            return (pa[0] + (pb[0] - pa[0]) * al, pa[1] + (pb[1] - pa[1]) * al, pa[2] + (pb[2] - pa[2]) * al,
                    rm.wrap(pa[3] + d * al))
    return None


def _ego_at(samples, t):
    ts = [s["t"] for s in samples]
    if t <= ts[0]:
        return tuple(samples[0]["ego"])
    if t >= ts[-1]:
        return tuple(samples[-1]["ego"])
    for i in range(len(ts) - 1):
        if ts[i] <= t <= ts[i + 1]:
            al = (t - ts[i]) / (ts[i + 1] - ts[i])
            return rm.interp_ego(samples[i]["ego"], samples[i + 1]["ego"], al)
    return tuple(samples[-1]["ego"])


def make_plan(seed, run, profile_name, clean=None, force=None):
    """`clean=True` forces a fault-free run of the profile; `force=[(kind, n), ...]` additionally makes the n-th
    opportunity of fault `kind` fire (systematic single-fault sweep: every fault kind at every position)."""
    rng = random.Random("worldsim:%d:%d:%s" % (seed, run, profile_name))
    prof = get_profile(profile_name)
    drawn_clean = rng.random() < prof["clean_p"]
    clean = drawn_clean if clean is None else bool(clean)
    forced = set((k, int(n)) for k, n in (force or []))
    forced_kinds = set(k for k, _ in forced)
    storm = (not clean) and rng.random() < prof["storm_p"]

    # which fault kinds are enabled in this run, and at what rate (swarm)
    rates = {}
    if not clean:
        for kind in prof["fault_pool"]:
            if kind in prof["force"] or rng.random() < prof["enable_p"]:
                rates[kind] = rng.uniform(0.3, 0.6) if storm else rng.uniform(prof["rate_lo"], prof["rate_hi"])
        for kind in prof["force"]:
            rates.setdefault(kind, rng.uniform(prof["rate_lo"], prof["rate_hi"]))
            rates[kind] = max(rates[kind], 0.12)

    opportunities = {}

    def fire(kind):
        n = opportunities.get(kind, 0)
        opportunities[kind] = n + 1
        if (kind, n) in forced:
            return True
        return kind in rates and rng.random() < rates[kind]

    def enabled(kind):
        return kind in rates or kind in forced_kinds

    task = _wchoice(rng, prof["tasks"])
    # (fp_validation2d ground truth is loaded without ROIs and paired by uuid: the ROI-less path of C11, not simulated)
    dim2 = prof.get("dim2d_p", 0.0) > 0 and task in ("detection", "tracking") and rng.random() < prof["dim2d_p"]
    world = _make_world(rng, prof, task, dim2)
    world["_task"] = task
    storage = _make_storage(rng, prof)
    if dim2:
        have = set(es["channel"] for es in storage["extra_sensors"])
        for ch in world["cams"]:
            if ch not in have:
                storage["extra_sensors"].append({"channel": ch, "modality": "camera", "trans": [_r(rng.uniform(-2, 4)), _r(rng.uniform(-1, 1)), _r(rng.uniform(0, 2))],
                                                 "yaw": _r(rng.uniform(-math.pi, math.pi), 6)})
        storage.pop("raw", None)
        if rng.random() < 0.35:
            storage["order"]["object_ann"] = {"rot": rng.randrange(0, 50), "rev": rng.random() < 0.5}
    cfg = _make_config(rng, prof, world)
    del world["_task"]
    samples, actors = world["samples"], world["actors"]
    n = len(samples)
    scale = cfg["scale"]

    interp = (not dim2) and cfg["frame"] == "map" and rng.random() < prof["interp_p"]
    period = world["period"]
    tol = rng.choice([75_000, 75_000, period // 2, period // 4, period, 3 * period, 1000, 10])
    lookup = {"tol": int(tol), "interp": bool(interp)}

    tokens = [a["token"] for a in actors]
    crit_default = _crit_spec(rng, cfg, scale, rng.random() < prof["narrow_crit_p"] * 0.5)
    pf_default = _pf_spec(rng, cfg)

    # ---- perception peer -------------------------------------------------------------------------------
    tracking = task == "tracking"
    merge = cfg["merge"]
    est_pool = ["car", "bicycle", "pedestrian", "unknown"] if merge else EST_LABELS
    track_id = {ai: "trk%02d" % ai for ai in range(len(actors))}
    bias = {ai: (rng.gauss(0, 0.4), rng.gauss(0, 0.4), rng.gauss(0, 0.1), rng.gauss(0, 0.08)) for ai in range(len(actors))}
    if clean or rng.random() < 0.2:
        bias = {ai: (0.0, 0.0, 0.0, 0.0) for ai in range(len(actors))}
    if dim2:
        # detector bias in whole pixels: (dx, dy, dw, dh)
        bias = {ai: tuple(int(round(b * 8)) for b in bias[ai]) for ai in bias}
    base_conf = {ai: rng.uniform(0.2, 0.99) for ai in range(len(actors))}
    next_fresh = [0]
    near_tie_carry = [None]
    seen_prev = set()
    sticky = rng.random() < prof["sticky_label_p"]
    idless = tracking and (not clean) and rng.random() < prof["idless_p"]
    label_state = {}

    def fresh_id():
        next_fresh[0] += 1
        return "new%02d" % next_fresh[0]

    # publication times: one per sample (true time = sample time + phase), optionally extra ticks
    ticks = []
    for i in range(n):
        phase = 0
        if interp and i + 1 < n and rng.random() < 0.6:
            gap = samples[i + 1]["t"] - samples[i]["t"]
            phase = rng.choice([gap // 2, gap // 3, rng.randrange(1, gap), 1, gap - 1])
        ticks.append((i, samples[i]["t"] + phase))
        if interp and i + 1 < n and rng.random() < 0.35:
            # the perception stack publishes faster than the annotation rate: one more message inside the same interval
            gap = samples[i + 1]["t"] - samples[i]["t"]
            ticks.append((i, samples[i]["t"] + max(phase + 1, rng.randrange(1, gap))))
    if rng.random() < 0.1 and n >= 2:
        rng.shuffle(ticks)  # a perception stack replayed out of order

    # clock state
    offset = int(rng.uniform(-0.4, 0.4) * period) if enabled("skew_offset") else 0
    drift = rng.uniform(-2e-4, 2e-4) if enabled("drift") else 0.0
    jump = 0

    messages = []
    fault_log = {}

    def note(kind):
        fault_log[kind] = fault_log.get(kind, 0) + 1

    if offset:
        note("skew_offset")
    if drift:
        note("drift")

    for mid, (si, t_true) in enumerate(ticks):
        ego = _ego_at(samples, t_true)
        objs = []
        live = []
        for ai, a in enumerate(actors):
            pose = _truth_pose_at(a, samples, t_true)
            if pose is None:
                continue
            live.append(ai)
        # tracker identity faults happen before rendering this tick
        if tracking and len(live) >= 1 and fire("id_new"):
            ai = rng.choice(live)
            track_id[ai] = fresh_id()
            note("id_new")
            idn = ai
        else:
            idn = None
        if tracking and len(live) >= 2 and fire("id_swap"):
            a1, a2 = rng.sample(live, 2)
            track_id[a1], track_id[a2] = track_id[a2], track_id[a1]
            note("id_swap")
            swp = [a1, a2]
        else:
            swp = None
        stolen = None
        if tracking and len(live) >= 2 and fire("id_steal"):
            # the tracker loses target A and its track id drifts onto target B (B's own id is dropped)
            reacq = [x for x in live if x not in seen_prev]      # targets the tracker did not report in the previous tick
            if reacq and rng.random() < 0.8:
                b_takes = rng.choice(reacq)
                a_lost = rng.choice([x for x in live if x != b_takes])
            else:
                a_lost, b_takes = rng.sample(live, 2)
            track_id[b_takes] = track_id[a_lost]
            track_id[a_lost] = fresh_id()
            stolen = a_lost
            note("id_steal")
        for ai in live:
            a = actors[ai]
            f = []
            if ai == stolen:
                continue
            if fire("miss"):
                note("miss")
                continue
            b = bias[ai]
            if dim2:
                rx, ry, rw, rh = a["states"][si]["roi"]
                rx, ry, rw, rh = rx + b[0], ry + b[1], rw + b[2], rh + b[3]
                if fire("pose_noise"):
                    s = rng.choice([2, 10, 40])
                    rx += int(rng.gauss(0, s))
                    ry += int(rng.gauss(0, s))
                    f.append("pose_noise")
                    note("pose_noise")
                if fire("size_noise"):
                    rw = int(rw * rng.uniform(0.5, 1.7))
                    rh = int(rh * rng.uniform(0.5, 1.7))
                    f.append("size_noise")
                    note("size_noise")
                geom = {"roi": [max(0, rx), max(0, ry), max(1, rw), max(1, rh)], "cam": a["states"][si]["cam"]}
            else:
                pose_m = _truth_pose_at(a, samples, t_true)
                pe = rm.pose_map_to_ego(ego, pose_m)
                x, y, z, yaw = pe[0] + b[0], pe[1] + b[1], pe[2] + b[2], pe[3] + b[3]
                if fire("pose_noise"):
                    s = rng.choice([0.3, 1.0, 3.0])
                    x += rng.gauss(0, s)
                    y += rng.gauss(0, s)
                    yaw += rng.gauss(0, 0.3)
                    if prof.get("z_noise"):
                        # height error too (ground estimation): distance in space then differs from distance on the ground.
                        # Drawn from a fork of the stream: every other decision of the plan stays what it was.
                        fz = random.Random()
                        fz.setstate(rng.getstate())
                        z += fz.gauss(0, 0.6 * s)
                        note("height_noise")
                    f.append("pose_noise")
                    note("pose_noise")
                if fire("yaw_flip"):
                    yaw += math.pi
                    f.append("yaw_flip")
                    note("yaw_flip")
                size = list(a["size"])
                if fire("size_noise"):
                    size = [round(max(0.05, v * rng.uniform(0.6, 1.5)), 3) for v in size]
                    f.append("size_noise")
                    note("size_noise")
                geom = {"pose": [_r(x), _r(y), _r(z), _r(rm.wrap(yaw), 6)], "size": size}
            lab = a["label"]
            if lab == "false_positive":
                lab = rng.choice(est_pool)
            elif merge:
                lab = MERGE.get(lab, lab)
            lkey = track_id[ai] if tracking else ai      # the class opinion belongs to the track: it moves with a drifting id
            if lkey in label_state:
                lab = label_state[lkey]        # the classifier keeps its earlier (wrong) opinion about this track
                f.append("label_sticky")
            if fire("label_flip"):
                lab = rng.choice([l for l in est_pool if l != lab])
                f.append("label_flip")
                note("label_flip")
                if sticky:
                    label_state[lkey] = lab
            if fire("label_unknown"):
                lab = "unknown"
                f.append("label_unknown")
                note("label_unknown")
                if sticky:
                    label_state[lkey] = lab
            if fire("label_alias"):
                al = list(ALIASES.get(lab, [])) + (list(ALIASES_MERGED.get(lab, [])) if merge else [])
                if al:
                    lab = rng.choice(al)  # another registered spelling of the same class
                    f.append("label_alias")
                    note("label_alias")
            conf = min(0.999999, max(0.000001, base_conf[ai] + rng.uniform(-0.05, 0.05)))
            o = {
                "src": ai,
                "label": lab,
                **geom,
                "conf": _r(conf, 6),
                "uuid": track_id[ai] if tracking else (None if rng.random() < 0.5 else "det%02d" % ai),
                "faults": f,
            }
            if rng.random() < 0.15:
                # a perception stack may attach attributes to its labels (e.g. when estimates are derived from annotations)
                o["attrs"] = list(a.get("attrs", [])) or [rng.choice(ATTRS)]
            if rng.random() < 0.3 and not dim2:
                o["vel"] = [_r(rng.uniform(-10, 10), 2), _r(rng.uniform(-3, 3), 2), 0.0]
            if idless:
                o["uuid"] = None
            if tracking and fire("id_none"):
                o["uuid"] = None          # a tracker output without an id
                o["faults"].append("id_none")
                note("id_none")
            if idn == ai:
                o["faults"].append("id_new")
            if swp and ai in swp:
                o["faults"].append("id_swap")
            if fire("wrong_frame_id"):
                if dim2:
                    o["cam"] = rng.choice([c for c in CAMERAS if c != o["cam"]])   # reported for another camera
                else:
                    o["frame_fault"] = True
                o["faults"].append("wrong_frame_id")
                note("wrong_frame_id")
            objs.append(o)
            if dim2 and a["states"][si].get("also") and not f:
                # the second camera sees the target too: one more detection of the same track
                o2 = copy.deepcopy(o)
                o2["roi"] = list(a["states"][si]["also"]["roi"])
                o2["cam"] = a["states"][si]["also"]["cam"]
                o2["conf"] = _r(min(0.999999, max(0.000001, conf - 0.013)), 6)
                o2["second_view"] = True
                objs.append(o2)
            if fire("dup_detection"):
                d = copy.deepcopy(o)
                if dim2:
                    if rng.random() < 0.75:
                        d["roi"][0] = max(0, d["roi"][0] + rng.randint(-12, 12))
                        d["roi"][1] = max(0, d["roi"][1] + rng.randint(-12, 12))
                    else:
                        d["roi"][2] = max(1, int(d["roi"][2] * rng.uniform(0.5, 1.6)))
                        d["roi"][3] = max(1, int(d["roi"][3] * rng.uniform(0.5, 1.6)))
                elif rng.random() < 0.75:
                    d["pose"][0] = _r(d["pose"][0] + rng.uniform(-0.5, 0.5))
                    d["pose"][1] = _r(d["pose"][1] + rng.uniform(-0.5, 0.5))
                else:
                    # an exact double: same centre, heading and label, another box size
                    d["size"] = [round(max(0.05, v * rng.uniform(0.5, 1.6)), 3) for v in d["size"]]
                d["conf"] = _r(min(0.999999, max(0.000001, conf - rng.uniform(0.01, 0.2))), 6)
                d["faults"] = f + ["dup_detection"]
                if idless:
                    pass
                elif tracking and not fire("id_dup"):
                    d["uuid"] = fresh_id()
                elif tracking:
                    d["faults"].append("id_dup")
                    note("id_dup")
                objs.append(d)
                note("dup_detection")
        seen_prev = set(o["src"] for o in objs if o["src"] >= 0)
        n_ghost = 0
        while fire("ghost") and n_ghost < 4:
            n_ghost += 1
            note("ghost")
            gl = rng.choice(est_pool)
            if dim2:
                gw, gh = ROI_SIZES[gl]
                ggeom = {"roi": [rng.randint(0, IMG_W - 10), rng.randint(0, IMG_H - 10), max(1, int(gw * rng.uniform(0.3, 1.5))), max(1, int(gh * rng.uniform(0.3, 1.5)))],
                         "cam": rng.choice(world["cams"])}
            else:
                ggeom = {"pose": [_r(rng.uniform(-scale, scale)), _r(rng.uniform(-scale, scale)), _r(rng.uniform(-1, 1)),
                                  _r(rng.uniform(-math.pi, math.pi), 6)],
                         "size": [round(v * rng.uniform(0.8, 1.2), 3) for v in SIZES[gl]]}
            objs.append(
                {
                    "src": -1,
                    "label": gl,
                    **ggeom,
                    "conf": _r(rng.uniform(0.01, 0.99), 6),
                    "uuid": fresh_id() if (tracking and not idless) else None,
                    "faults": ["ghost"],
                }
            )
        if objs and fire("conf_tie"):
            c = objs[0]["conf"]
            for o in objs[: rng.randint(2, max(2, len(objs)))]:
                o["conf"] = c
            note("conf_tie")
        if len(objs) >= 2 and fire("conf_near_tie"):
            # confidences that differ, but only in the last bits of a double
            c = objs[0]["conf"]
            for j, o in enumerate(objs[1:1 + rng.randint(1, 3)], 1):
                o["conf"] = c + j * 2e-9
            note("conf_near_tie")
        elif objs and near_tie_carry[0] is not None and fire("conf_near_tie"):
            objs[0]["conf"] = near_tie_carry[0] + 3e-9  # ... or across two messages (pooled scene ranking)
            note("conf_near_tie")
        if objs:
            near_tie_carry[0] = objs[0]["conf"]
        if rng.random() < 0.3:
            rng.shuffle(objs)
        # clock reading for this message
        stamp = t_true + offset + int(drift * (t_true - samples[0]["t"])) + jump
        if fire("jitter"):
            stamp += int(rng.gauss(0, 0.15) * period)
            note("jitter")
        if fire("jump_back"):
            jump -= int(rng.uniform(0.5, 3) * period)
            note("jump_back")
        if fire("jump_forward"):
            jump += int(rng.uniform(0.5, 3) * period)
            note("jump_forward")
        if fire("stamp_edge"):
            note("stamp_edge")
            base = samples[si]["t"]
            stamp = rng.choice(
                [
                    base + tol, base + tol + 1, base + tol - 1, base - tol, base - tol - 1, base - tol + 1,
                    samples[0]["t"] - rng.randrange(1, max(2, tol)), samples[-1]["t"] + rng.randrange(1, max(2, tol)),
                    samples[0]["t"] - 1, samples[-1]["t"] + 1, base,
                    (samples[si]["t"] + samples[min(si + 1, n - 1)]["t"]) // 2,
                ]
            )
        messages.append({"mid": mid, "sample": si, "t_true": int(t_true), "stamp": int(stamp), "objects": objs})

    # make confidences globally distinct (keeps `order_independent` decidable) unless ties were injected on purpose
    seen = set()
    tie_injected = "conf_tie" in fault_log
    for m in messages:
        for o in m["objects"]:
            if tie_injected:
                continue
            c = o["conf"]
            while c in seen:
                c = _r(min(0.999999, c + 1e-6 if c < 0.9 else c - 1e-6), 6)
                if c in seen:
                    c = _r(rng.uniform(0.01, 0.99), 6)
            seen.add(c)
            o["conf"] = min(0.9999999, c)

    # ---- transport: discrete-event simulation of delivery -------------------------------------------
    events = []  # (time, seq, kind, payload)
    seq = 0
    for m in messages:
        t_pub = m["t_true"]
        if fire("drop"):
            note("drop")
            continue
        delay = rng.randrange(1000, 20_000)
        if fire("delay"):
            delay += int(rng.uniform(0.5, 4) * period)
            note("delay")
        if fire("reorder"):
            delay += int(rng.uniform(1.0, 2.5) * period)
            note("reorder")
        seq += 1
        heapq.heappush(events, (t_pub + delay, seq, "arrive", {"mid": m["mid"], "copy": 0}))
        if fire("dup"):
            note("dup")
            seq += 1
            heapq.heappush(events, (t_pub + delay + rng.randrange(1, 3 * period), seq, "arrive", {"mid": m["mid"], "copy": 1}))
    t_lo = samples[0]["t"]
    t_hi = samples[-1]["t"] + 5 * period
    n_q = sum(1 for _ in range(n) if fire("scene_query"))
    for _ in range(n_q):
        note("scene_query")
        seq += 1
        heapq.heappush(events, (rng.randrange(t_lo, t_hi), seq, "scene_query", {}))
    if fire("restart") or ("restart" in rates and rng.random() < 0.3):
        note("restart")
        seq += 1
        heapq.heappush(events, (rng.randrange(t_lo, t_hi), seq, "restart", {}))
    if fire("analyze") or ("analyze" in rates and rng.random() < 0.3):
        seq += 1
        heapq.heappush(events, (rng.randrange(t_lo, t_hi), seq, "analyze", {}))

    ops = []
    delivered = []
    while events:
        t_ev, _, kind, payload = heapq.heappop(events)
        if kind == "arrive":
            op = {"op": "deliver", "mid": payload["mid"]}
            if payload["copy"] == 1 or fire("crit_change"):
                if enabled("crit_change") or payload["copy"] == 1:
                    if "crit_change" in forced_kinds or rng.random() < 0.6:
                        op["crit"] = _crit_spec(rng, cfg, scale, rng.random() < prof["narrow_crit_p"], tokens)
                        note("crit_change")
            if (payload["copy"] == 1 and enabled("pf_change")) or fire("pf_change"):
                op["pf"] = _pf_spec(rng, cfg, factor=rng.choice([0.5, 2.0, 3.0]))
                note("pf_change")
            ops.append(op)
            delivered.append(payload["mid"])
            if delivered and fire("reeval"):
                note("reeval")
                op2 = {"op": "deliver", "mid": rng.choice(delivered)}
                if rng.random() < 0.5:
                    op2["crit"] = _crit_spec(rng, cfg, scale, rng.random() < 0.5, tokens)
                ops.append(op2)
                if enabled("restart") and rng.random() < 0.15:
                    ops.append({"op": "restart"})
                    note("restart")
        elif kind == "scene_query":
            ops.append({"op": "scene_query"})
        elif kind == "restart":
            ops.append({"op": "restart"})
        elif kind == "analyze":
            ops.append({"op": "analyze", "div": rng.choice([1, 3, 9])})
            note("analyze")
    ops.append({"op": "scene_query"})
    if rng.random() < prof["analyze_p"]:
        ops.append({"op": "analyze", "div": rng.choice([1, 1, 3, 9])})
        note("analyze")

    # extra pure lookups (C17)
    lookups = []
    for _ in range(prof["extra_lookups"]):
        i = rng.randrange(n)
        base = samples[i]["t"]
        nxt = samples[min(i + 1, n - 1)]["t"]
        tl = rng.choice([tol, tol, 75_000, period, period // 3, 1, 0, 10 * period])
        t = rng.choice(
            [
                base, base + 1, base - 1, (base + nxt) // 2, base + tl, base + tl + 1, base - tl, base - tl - 1,
                rng.randrange(samples[0]["t"] - 2 * period, samples[-1]["t"] + 2 * period),
                samples[0]["t"] - rng.randrange(1, period), samples[-1]["t"] + rng.randrange(1, period),
                base + rng.randrange(0, max(1, nxt - base)) if nxt > base else base,
            ]
        )
        lookups.append({"t": int(t), "tol": int(tl), "interp": rng.random() < 0.6})

    reuse_configs = rng.random() < 0.5
    reuse_estimates = rng.random() < 0.5
    frame_handoff = rng.choice(["as_is"] * 15 + ["rebuilt"] * 3 + ["reverse"] * 2)
    stamp_as_gt_time = rng.random() < 0.4
    sibling = rng.random() < prof.get("sibling_p", 0.0)
    plan = {
        "version": 1,
        "seed": seed,
        "run": run,
        "profile": profile_name,
        "clean": clean and not forced,
        "forced": sorted([k, n] for k, n in forced),
        "opportunities": dict(sorted(opportunities.items())),
        "rates": {k: round(v, 4) for k, v in sorted(rates.items())},
        "fired": dict(sorted(fault_log.items())),
        "world": world,
        "storage": storage,
        "config": cfg,
        "lookup": lookup,
        "crit_default": crit_default,
        "pf_default": pf_default,
        "messages": messages,
        "ops": ops,
        "lookups": lookups,
        "twins": list(prof["twins"]),
        # a driver may build its per-frame configs once and pass the same objects for every frame, or build new ones
        "reuse_configs": reuse_configs,
        # a re-delivered message may be handed over as the very same estimate objects, or as freshly built ones
        "reuse_estimates": reuse_estimates,
        # the driver hands the looked-up frame over as it is, or as a FrameGroundTruth it built itself from the same
        # objects (optionally registering the ego pose in the map->ego direction, which TransformDict resolves by inversion)
        "frame_handoff": frame_handoff,
        # estimates may be stamped with the message stamp or (as perception_lsim.py does) with the ground-truth frame's time
        "stamp_as_gt_time": stamp_as_gt_time,
        "sibling": sibling,
    }
    return plan


def derive_sibling(plan, dx=137.5, dy=-71.25, dz=0.4, dyaw=0.7):
    """A second recording of the same scenario somewhere else on the map: every global pose is moved by one rigid
    motion, timestamps / tokens / ego-relative geometry stay the same.  Used to load and analyse two different
    datasets inside one process (state keyed by timestamp, token or frame number must not leak between them)."""
    p2 = dict(plan)
    w = copy.deepcopy(plan["world"])
    c, s_ = math.cos(dyaw), math.sin(dyaw)

    def move(pose):
        x, y, z, yaw = pose
        return [_r(c * x - s_ * y + dx), _r(s_ * x + c * y + dy), _r(z + dz), _r(rm.wrap(yaw + dyaw), 6)]

    for smp in w["samples"]:
        smp["ego"] = move(smp["ego"])
        smp.pop("ego_rp", None)
    for a in w["actors"]:
        for st in a["states"]:
            if st is not None:
                st["pose"] = move(st["pose"])
                if "roi" in st:
                    st["roi"] = [st["roi"][0] + 37, st["roi"][1] + 11, st["roi"][2], st["roi"][3]]
    p2["world"] = w
    p2["sibling_of"] = [plan["seed"], plan["run"]]
    return p2
