"""Reference model: small executable definitions written from the property statements, over plain values.

No repository code is imported here.  Inputs are "views" (dicts / tuples) that the oracles extract from the
real objects; geometry scores whose exactness is not a claimed property (IoU, plane distance, heading
weight) are passed in as numbers.
"""
import math

from . import refmath as rm

EPS_REL = 1e-6


def near(value, threshold, eps=EPS_REL):
    """True when a strict comparison of value against threshold is too close to call."""
    if math.isinf(threshold) or math.isinf(value):
        return False
    return abs(value - threshold) <= eps * max(1.0, abs(threshold))


# ------------------------------------------------------------------------------------------------------
# C17: lookup and interpolation
# ------------------------------------------------------------------------------------------------------


def ref_lookup(ts, t, tol):
    """Index of the frame closest in time to t (first wins ties) if within tol, else None."""
    best, best_d = None, None
    for i, ti in enumerate(ts):
        d = abs(t - ti)
        if best is None or d < best_d:
            best, best_d = i, d
    if best is None or best_d > tol:
        return None
    return best


def ref_neighbours(ts, t, tol):
    """(before_index or None, after_index or None) for time-ordered ts, gated by tol.

    before = the latest frame with ts <= t, after = the earliest frame with ts > t.
    """
    before = after = None
    for i, ti in enumerate(ts):
        if ti <= t:
            if before is None or ti >= ts[before]:
                before = i
        else:
            if after is None or ti < ts[after]:
                after = i
    if before is not None and t - ts[before] > tol:
        before = None
    if after is not None and ts[after] - t > tol:
        after = None
    return before, after


def ref_interp_pose(p1, q1, p2, q2, alpha):
    """Position on the segment and orientation on the shortest arc."""
    return rm.lerp(p1, p2, alpha), rm.q_slerp(q1, q2, alpha)


# ------------------------------------------------------------------------------------------------------
# C10: the filter predicate
# ------------------------------------------------------------------------------------------------------


def _label_value(label_list, label, values):
    """values[index of label in label_list] or None."""
    if label_list is None or values is None:
        return None
    if label in label_list:
        return values[label_list.index(label)]
    return None


def ref_is_target(view, is_gt, params):
    """Reference filter predicate.

    view:   dict(label, name, attrs, conf, x, y, bev, npts, uuid)  -- x, y, bev ego-relative
    params: dict(target_labels [str]|None, ignore_attributes, max_x, max_y, max_dist, min_dist,
                 min_pts, conf_thr, target_uuids)   -- per-label lists aligned with target_labels
    Returns (decision, margin): decision True/False, margin = smallest distance of a numeric comparison to its
    boundary among the comparisons that were decisive (math.inf if none).
    """
    label = view["label"]
    if label == "false_positive":
        return True, math.inf
    labels = params.get("target_labels")
    unknown_est = (label == "unknown") and not is_gt
    unknown_targeted = labels is not None and "unknown" in labels
    relaxed = unknown_est and not unknown_targeted
    margin = math.inf

    if labels and not relaxed:
        if label not in labels:
            return False, math.inf
    ign = params.get("ignore_attributes")
    if ign is not None and not relaxed:
        for key in ign:
            if key in view["name"] or key in view["attrs"]:
                return False, math.inf

    def bound(values):
        if relaxed:
            return sum(values) / len(values)
        return _label_value(labels, label, values)

    ok = True
    conf_thr = params.get("conf_thr")
    if conf_thr is not None:
        thr = 0.0 if relaxed else _label_value(labels, label, conf_thr)
        if thr is not None:
            margin = min(margin, abs(view["conf"] - thr))
            ok = ok and view["conf"] > thr
    if view["x"] is None:
        # an image object: no ego-relative position exists, so no range or point-count criterion applies to it
        if is_gt and params.get("target_uuids") is not None:
            ok = ok and view["uuid"] in params["target_uuids"]
        return ok, margin
    if params.get("max_x") is not None:
        b = bound(params["max_x"])
        margin = min(margin, abs(abs(view["x"]) - b) / max(1.0, abs(b)))
        ok = ok and abs(view["x"]) < b
    if params.get("max_y") is not None:
        b = bound(params["max_y"])
        margin = min(margin, abs(abs(view["y"]) - b) / max(1.0, abs(b)))
        ok = ok and abs(view["y"]) < b
    if params.get("max_dist") is not None:
        b = bound(params["max_dist"])
        margin = min(margin, abs(view["bev"] - b) / max(1.0, abs(b)))
        ok = ok and view["bev"] < b
    if params.get("min_dist") is not None:
        b = bound(params["min_dist"])
        margin = min(margin, abs(view["bev"] - b) / max(1.0, abs(b)))
        ok = ok and view["bev"] > b
    if is_gt and params.get("min_pts") is not None:
        b = 0 if relaxed else _label_value(labels, label, params["min_pts"])
        if b is not None:
            ok = ok and view["npts"] >= b
    if is_gt and params.get("target_uuids") is not None:
        ok = ok and view["uuid"] in params["target_uuids"]
    return ok, margin


def ref_in_region(view, is_gt, params):
    """Only the range part of the predicate (C03's `region` clause)."""
    p = {k: params.get(k) for k in ("target_labels", "max_x", "max_y", "max_dist", "min_dist")}
    if params.get("target_labels") and view["label"] not in params["target_labels"]:
        if not (view["label"] == "unknown" and not is_gt) and view["label"] != "false_positive":
            # label not targeted: not decided by the region clause
            return True, math.inf
    return ref_is_target(view, is_gt, p)


# ------------------------------------------------------------------------------------------------------
# image ROIs (x, y, w, h in whole pixels)
# ------------------------------------------------------------------------------------------------------

ROI_CENTER_SLACK = 0.75  # the centre of a ROI with an odd side is a half pixel: distances are known to about 0.71 px


def roi_center_distance(a, b):
    """Distance between the centres of two ROIs, centres taken at whole pixels (x + w // 2, y + h // 2)."""
    ax, ay = a[0] + a[2] // 2, a[1] + a[3] // 2
    bx, by = b[0] + b[2] // 2, b[1] + b[3] // 2
    return math.hypot(ax - bx, ay - by)


def roi_iou(a, b):
    """Intersection over union of two axis-aligned ROIs."""
    iw = min(a[0] + a[2], b[0] + b[2]) - max(a[0], b[0])
    ih = min(a[1] + a[3], b[1] + b[3]) - max(a[1], b[1])
    inter = max(0, iw) * max(0, ih)
    union = a[2] * a[3] + b[2] * b[3] - inter
    return inter / union if union > 0 else 0.0


# ------------------------------------------------------------------------------------------------------
# C01 / C02: matching
# ------------------------------------------------------------------------------------------------------


def ref_compatible(policy, est_label, gt_label):
    if gt_label == "false_positive" or policy == "ALLOW_ANY":
        return True
    if policy == "ALLOW_UNKNOWN":
        return est_label == gt_label or est_label == "unknown"
    return est_label == gt_label


def ref_match(n_est, n_gt, score, matchable, compatible):
    """Two-stage greedy (smaller score is better).  score/matchable/compatible: functions of (i, j).

    Returns list of (i, j) in the order chosen; ties broken by first in row-major order of the remaining table.
    """
    est_left = list(range(n_est))
    gt_left = list(range(n_gt))
    pairs = []
    for stage in (0, 1):
        while True:
            best = None
            for i in est_left:
                for j in gt_left:
                    if not matchable(i, j):
                        continue
                    if stage == 0 and not compatible(i, j):
                        continue
                    s = score(i, j)
                    if best is None or s < best[0]:
                        best = (s, i, j)
            if best is None:
                break
            pairs.append((best[1], best[2]))
            est_left.remove(best[1])
            gt_left.remove(best[2])
    return pairs


def blocking_pairs(n_est, n_gt, score, matchable, compatible, pairs, tol=1e-9):
    """Matchable pairs that block the assignment `pairs` (list of (i, j)) in the sense of C02."""
    est_to = {i: j for i, j in pairs}
    gt_to = {j: i for i, j in pairs}
    out = []
    for i in range(n_est):
        for j in range(n_gt):
            if not matchable(i, j) or est_to.get(i) == j:
                continue
            s = score(i, j)
            comp = compatible(i, j)

            def member_ok(partner_i, partner_j):
                # the member (est partner_i / gt partner_j) is matched to a partner at least as good
                if partner_i is None or partner_j is None:
                    return False
                pc = compatible(partner_i, partner_j)
                ps = score(partner_i, partner_j)
                if comp:
                    return pc and ps <= s + tol
                return pc or ps <= s + tol

            ok = False
            if i in est_to:
                ok = ok or member_ok(i, est_to[i])
            if j in gt_to:
                ok = ok or member_ok(gt_to[j], j)
            if not ok:
                out.append((i, j))
    return out


# ------------------------------------------------------------------------------------------------------
# C04: average precision
# ------------------------------------------------------------------------------------------------------


def ref_ap(tp_values, num_gt):
    """Interpolated area under the precision-recall curve.

    tp_values: per ranked result (descending confidence) its TP weight (0.0 for FP and for ignored results).
    Returns None when AP is undefined (no results).
    """
    n = len(tp_values)
    if n == 0:
        return None
    pts = []
    cum = 0.0
    for i, v in enumerate(tp_values):
        cum += v
        pts.append((cum / num_gt if num_gt > 0 else 0.0, cum / (i + 1)))
    recalls = sorted(set(r for r, _ in pts), reverse=True)
    by_recall = {}
    for r, p in pts:
        by_recall[r] = max(by_recall.get(r, 0.0), p)
    area, best = 0.0, 0.0
    for k, r in enumerate(recalls):
        best = max(best, by_recall[r])
        nxt = recalls[k + 1] if k + 1 < len(recalls) else 0.0
        area += best * (r - nxt)
    return area


def ref_heading(q):
    """Heading of a box in the bird's-eye view: direction of its x-axis on the ground plane (None if that axis is
    close to vertical)."""
    v = rm.q_rotate(rm.q_normalize(q), (1.0, 0.0, 0.0))
    if math.hypot(v[0], v[1]) < 0.2:
        return None
    return math.atan2(v[1], v[0])


def ref_heading_agreement(q_est, q_gt):
    """Heading agreement of a pair: 1 - |heading difference| / pi with the difference wrapped into [0, pi]."""
    ha, hb = ref_heading(q_est), ref_heading(q_gt)
    if ha is None or hb is None:
        return None
    d = abs(rm.wrap(ha - hb))
    return min(1.0, max(0.0, 1.0 - d / math.pi))


# ------------------------------------------------------------------------------------------------------
# C05: CLEAR
# ------------------------------------------------------------------------------------------------------


def ref_clear(frames, threshold_ok):
    """Statement-level online CLEAR accumulator.

    frames: list of frames; each frame a list of results r = dict(eid, elabel, gid (or None), score, compat)
            already restricted to results *of the evaluated label*.  frames[0] is the initial 'previous'.
    threshold_ok(score) -> bool.
    Returns dict(tp, fp, idsw, score_sum).
    """
    tp = fp = idsw = 0
    score_sum = 0.0
    prev_tp_pairs = []  # (eid, elabel, gid) of TPs of the previous frame
    first = True
    for frame in frames:
        cur_pairs = []
        for r in frame:
            is_tp = r["gid"] is not None and r["compat"] and threshold_ok(r["score"])
            if is_tp:
                cur_pairs.append((r["eid"], r["elabel"], r["gid"]))
            if first:
                continue
            if is_tp:
                tp += 1
                score_sum += r["score"]
                # a switch: the pairing of this TP differs from the pairing a TP had in the previous frame
                switched = False
                for pe, pl, pg in prev_tp_pairs:
                    same_est = pe == r["eid"] and pl == r["elabel"]
                    same_gt = pg == r["gid"]
                    if same_est != same_gt:
                        switched = True
                        break
                    if same_est and same_gt:
                        break
                if switched:
                    idsw += 1
            else:
                fp += 1
        prev_tp_pairs = cur_pairs
        first = False
    return {"tp": tp, "fp": fp, "idsw": idsw, "score_sum": score_sum}


def mota(tp, fp, idsw, num_gt):
    if num_gt == 0:
        return math.inf
    return max(0.0, (tp - fp - idsw) / num_gt)


def motp(score_sum, tp):
    if tp == 0:
        return math.inf
    return score_sum / tp
