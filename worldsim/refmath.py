"""Independent arithmetic for the reference model: yaw/quaternion/rigid motions over plain tuples.

Nothing here imports numpy, pyquaternion or perception_eval: the oracles must not share code with the
implementation whose geometry they judge.
"""
import math

PI = math.pi


def wrap(a):
    """Wrap an angle to (-pi, pi]."""
    a = math.fmod(a, 2.0 * PI)
    if a > PI:
        a -= 2.0 * PI
    elif a <= -PI:
        a += 2.0 * PI
    return a


def q_from_yaw(yaw):
    return (math.cos(yaw / 2.0), 0.0, 0.0, math.sin(yaw / 2.0))


def q_from_ypr(yaw, pitch=0.0, roll=0.0):
    """Rz(yaw) * Ry(pitch) * Rx(roll)."""
    qz = (math.cos(yaw / 2.0), 0.0, 0.0, math.sin(yaw / 2.0))
    qy = (math.cos(pitch / 2.0), 0.0, math.sin(pitch / 2.0), 0.0)
    qx = (math.cos(roll / 2.0), math.sin(roll / 2.0), 0.0, 0.0)
    return q_mul(q_mul(qz, qy), qx)


def q_matrix(q):
    """3x3 rotation matrix (list of rows) of a unit quaternion."""
    cols = [q_rotate(q, e) for e in ((1.0, 0.0, 0.0), (0.0, 1.0, 0.0), (0.0, 0.0, 1.0))]
    return [[cols[c][r] for c in range(3)] for r in range(3)]


def q_mul(a, b):
    aw, ax, ay, az = a
    bw, bx, by, bz = b
    return (
        aw * bw - ax * bx - ay * by - az * bz,
        aw * bx + ax * bw + ay * bz - az * by,
        aw * by - ax * bz + ay * bw + az * bx,
        aw * bz + ax * by - ay * bx + az * bw,
    )


def q_conj(q):
    return (q[0], -q[1], -q[2], -q[3])


def q_norm(q):
    return math.sqrt(sum(c * c for c in q))


def q_normalize(q):
    n = q_norm(q)
    return tuple(c / n for c in q)


def q_rotate(q, v):
    qv = (0.0, v[0], v[1], v[2])
    r = q_mul(q_mul(q, qv), q_conj(q))
    return (r[1], r[2], r[3])


def q_yaw(q):
    """Yaw (rotation about z) of a unit quaternion, ZYX convention."""
    w, x, y, z = q
    return math.atan2(2.0 * (w * z + x * y), 1.0 - 2.0 * (y * y + z * z))


def q_angle_between(a, b):
    """Smallest rotation angle taking orientation a to orientation b (sign of quaternion ignored)."""
    d = abs(sum(x * y for x, y in zip(q_normalize(a), q_normalize(b))))
    d = min(1.0, d)
    return 2.0 * math.acos(d)


def q_slerp(a, b, alpha):
    """Shortest-arc spherical interpolation between unit quaternions."""
    a = q_normalize(a)
    b = q_normalize(b)
    dot = sum(x * y for x, y in zip(a, b))
    if dot < 0.0:
        b = tuple(-c for c in b)
        dot = -dot
    if dot > 1.0 - 1e-12:
        r = tuple(x + alpha * (y - x) for x, y in zip(a, b))
        return q_normalize(r)
    dot = min(1.0, dot)
    theta0 = math.acos(dot)
    s0 = math.sin(theta0)
    theta = theta0 * alpha
    sa = math.sin(theta0 - theta) / s0
    sb = math.sin(theta) / s0
    return tuple(sa * x + sb * y for x, y in zip(a, b))


def lerp(a, b, alpha):
    return tuple(x + (y - x) * alpha for x, y in zip(a, b))


# --- planar ego poses: (x, y, z, yaw) ------------------------------------------------------------------


def ego_to_map(ego, p):
    """Point expressed in the ego frame -> map frame, for ego pose (x, y, z, yaw)."""
    ex, ey, ez, eyaw = ego
    c, s = math.cos(eyaw), math.sin(eyaw)
    return (ex + c * p[0] - s * p[1], ey + s * p[0] + c * p[1], ez + p[2])


def map_to_ego(ego, p):
    ex, ey, ez, eyaw = ego
    c, s = math.cos(eyaw), math.sin(eyaw)
    dx, dy = p[0] - ex, p[1] - ey
    return (c * dx + s * dy, -s * dx + c * dy, p[2] - ez)


def pose_ego_to_map(ego, pose):
    """pose = (x, y, z, yaw)."""
    p = ego_to_map(ego, pose[:3])
    return (p[0], p[1], p[2], wrap(pose[3] + ego[3]))


def pose_map_to_ego(ego, pose):
    p = map_to_ego(ego, pose[:3])
    return (p[0], p[1], p[2], wrap(pose[3] - ego[3]))


def q_pose_map_to_ego(ego, pos, quat):
    """General-quaternion version: returns (pos_ego, quat_ego)."""
    p = map_to_ego(ego, pos)
    q = q_mul(q_conj(q_from_yaw(ego[3])), quat)
    return p, q


def dist3(a, b):
    return math.sqrt((a[0] - b[0]) ** 2 + (a[1] - b[1]) ** 2 + (a[2] - b[2]) ** 2)


def dist2(a, b):
    return math.hypot(a[0] - b[0], a[1] - b[1])


def box_corners_bev(pose, size):
    """Footprint corners of a box with pose (x, y, z, yaw) and size (w, l, h); order as the repo's Shape."""
    w, l = size[0], size[1]
    c, s = math.cos(pose[3]), math.sin(pose[3])
    out = []
    for lx, ly in ((l / 2, w / 2), (-l / 2, w / 2), (-l / 2, -w / 2), (l / 2, -w / 2)):
        out.append((pose[0] + c * lx - s * ly, pose[1] + s * lx + c * ly))
    return out


def interp_ego(e1, e2, alpha):
    """Interpolate planar ego poses (x, y, z, yaw): lerp translation, shortest-arc yaw."""
    d = wrap(e2[3] - e1[3])
    return (
        e1[0] + (e2[0] - e1[0]) * alpha,
        e1[1] + (e2[1] - e1[1]) * alpha,
        e1[2] + (e2[2] - e1[2]) * alpha,
        wrap(e1[3] + d * alpha),
    )
