"""Storage peer: renders a plan's world as a T4 / nuScenes `annotation/*.json` tree on disk.

This is a stub *writer* producing real files; reading them back is done by the real nuscenes-devkit and
the repository's loader.  Pure function of (world, storage) -- no randomness, no clock.
"""
import json
import os

from . import refmath as rm

T4_LEVELS = {"full": "full", "most": "most", "partial": "partial", "none": "none"}
ALIAS_LEVELS = {"full": "v80-100", "most": "v60-80", "partial": "v40-60", "none": "v0-40"}
LEVEL_ORDER = ["none", "partial", "most", "full"]


def _quat_from_yaw(yaw):
    return list(rm.q_from_yaw(yaw))


def _ann_quat(yaw, st):
    q = list(rm.q_from_ypr(yaw, *st["rp"])) if st.get("rp") else _quat_from_yaw(yaw)
    return [-c for c in q] if st.get("qneg") else q


def _reorder(rows, spec):
    """Benign row-order variation decided at plan time: rotate by k and optionally reverse."""
    if not rows or not spec:
        return rows
    k = spec.get("rot", 0) % len(rows)
    rows = rows[k:] + rows[:k]
    if spec.get("rev"):
        rows = rows[::-1]
    return rows


def sample_token(i):
    return "smp%05d" % i


def ann_token(actor_index, i):
    return "ann%03d_%05d" % (actor_index, i)


def write_dataset(root, world, storage):
    """Write the dataset; returns dict with the tables (for the oracle's benefit) and the root path."""
    ann_dir = os.path.join(root, "annotation")
    os.makedirs(ann_dir, exist_ok=True)
    samples = world["samples"]
    actors = world["actors"]
    order = storage.get("order", {})
    token_map = storage.get("token_map", {})

    # ---- static tables -------------------------------------------------------------------------------
    categories = []
    cat_token = {}
    for a in actors:
        name = a["category"]
        if name not in cat_token:
            cat_token[name] = "cat%03d" % len(cat_token)
            categories.append({"token": cat_token[name], "name": name, "description": ""})
    for name in storage.get("extra_categories", []):
        if name not in cat_token:
            cat_token[name] = "cat%03d" % len(cat_token)
            categories.append({"token": cat_token[name], "name": name, "description": ""})

    attributes = []
    attr_token = {}
    for a in actors:
        for name in a.get("attrs", []):
            if name not in attr_token:
                attr_token[name] = "att%03d" % len(attr_token)
                attributes.append({"token": attr_token[name], "name": name, "description": ""})

    vis_mode = storage.get("visibility", "t4")
    visibility = []
    vis_token = {}
    if vis_mode != "none":
        table = T4_LEVELS if vis_mode == "t4" else ALIAS_LEVELS
        for n, lv in enumerate(LEVEL_ORDER):
            tok = str(n + 1)
            vis_token[lv] = tok
            visibility.append({"token": tok, "level": table[lv], "description": lv})

    lidar_channel = storage.get("lidar", "LIDAR_TOP")
    sensors = [{"token": "sen000", "channel": lidar_channel, "modality": "lidar"}]
    calibs = [
        {
            "token": "cal000",
            "sensor_token": "sen000",
            "translation": [0.0, 0.0, 0.0],
            "rotation": [1.0, 0.0, 0.0, 0.0],
            "camera_intrinsic": [],
        }
    ]
    for n, es in enumerate(storage.get("extra_sensors", []), 1):
        sensors.append({"token": "sen%03d" % n, "channel": es["channel"], "modality": es["modality"]})
        calibs.append(
            {
                "token": "cal%03d" % n,
                "sensor_token": "sen%03d" % n,
                "translation": [float(v) for v in es["trans"]],
                "rotation": _quat_from_yaw(es["yaw"]),
                "camera_intrinsic": [[1000.0, 0.0, 640.0], [0.0, 1000.0, 360.0], [0.0, 0.0, 1.0]]
                if es["modality"] == "camera"
                else [],
            }
        )

    log = [{"token": "log000", "logfile": "", "vehicle": "sim", "date_captured": "2026-01-01", "location": "sim"}]
    maps = [{"token": "map000", "log_tokens": ["log000"], "category": "semantic_prior", "filename": ""}]
    scene = [
        {
            "token": "scn000",
            "log_token": "log000",
            "nbr_samples": len(samples),
            "first_sample_token": sample_token(0),
            "last_sample_token": sample_token(len(samples) - 1),
            "name": "sim",
            "description": "",
        }
    ]

    # ---- samples, sample_data, ego poses -----------------------------------------------------------
    sample_rows, sd_rows, ego_rows = [], [], []
    for i, s in enumerate(samples):
        sample_rows.append(
            {
                "token": sample_token(i),
                "timestamp": int(s["t"]),
                "scene_token": "scn000",
                "next": sample_token(i + 1) if i + 1 < len(samples) else "",
                "prev": sample_token(i - 1) if i > 0 else "",
            }
        )
        ex, ey, ez, eyaw = s["ego"]
        epitch, eroll = s.get("ego_rp", (0.0, 0.0))
        lags = storage.get("stamp_lag_us")
        t_rec = int(s["t"]) + (int(lags[i % len(lags)]) if lags else 0)   # when the sensor records of this sample were stamped
        for sn, sen in enumerate(sensors):
            tok = "sd%03d_%05d" % (sn, i)
            off = storage.get("sensor_ego_offset") if sn > 0 else None
            tx, ty, tz = (float(ex), float(ey), float(ez))
            if off:
                # the other sensors fired a little later: their records carry a slightly different ego pose
                tx, ty, tz = tx + off[0] * sn, ty + off[1] * sn, tz + off[2] * sn
            ego_rows.append(
                {
                    "token": "ego" + tok,
                    "translation": [tx, ty, tz],
                    "rotation": list(rm.q_from_ypr(eyaw, epitch, eroll)),
                    "timestamp": t_rec,
                }
            )
            sd_rows.append(
                {
                    "token": tok,
                    "sample_token": sample_token(i),
                    "ego_pose_token": "ego" + tok,
                    "calibrated_sensor_token": "cal%03d" % sn,
                    "filename": "data/%s/%d.%s" % (sen["channel"], i, "jpg" if sen["modality"] == "camera" else "bin"),
                    "fileformat": "bin" if sen["modality"] != "camera" else "jpg",
                    "width": 1280 if sen["modality"] == "camera" else 0,
                    "height": 720 if sen["modality"] == "camera" else 0,
                    "timestamp": t_rec,
                    "is_key_frame": True,
                    "next": "sd%03d_%05d" % (sn, i + 1) if i + 1 < len(samples) else "",
                    "prev": "sd%03d_%05d" % (sn, i - 1) if i > 0 else "",
                }
            )

    # ---- instances and annotations -----------------------------------------------------------------
    inst_rows, ann_rows = [], []
    dim2 = world.get("dim") == 2
    obj_ann_rows = []
    sd_of = {}
    for sn, sen in enumerate(sensors):
        for i in range(len(samples)):
            sd_of[(sen["channel"], i)] = "sd%03d_%05d" % (sn, i)
    for ai, a in enumerate(actors):
        present = [i for i, st in enumerate(a["states"]) if st is not None]
        if not present:
            continue
        itok = token_map.get(a["token"], a["token"])
        if dim2:
            # camera world: the annotations are image boxes [x1, y1, x2, y2] attached to the camera's sample_data
            inst_rows.append({"token": itok, "category_token": cat_token[a["category"]], "instance_name": "", "nbr_annotations": 0,
                              "first_annotation_token": "", "last_annotation_token": ""})
            for i in present:
                st = a["states"][i]
                x, y, w, h = st["roi"]
                obj_ann_rows.append(
                    {
                        "token": "oan%03d_%05d" % (ai, i),
                        "sample_data_token": sd_of[(st["cam"], i)],
                        "instance_token": itok,
                        "category_token": cat_token[a["category"]],
                        "attribute_tokens": [attr_token[n] for n in a.get("attrs", [])],
                        "bbox": [int(x), int(y), int(x + w), int(y + h)],
                        "mask": None,
                    }
                )
                if st.get("also"):
                    x, y, w, h = st["also"]["roi"]
                    obj_ann_rows.append(
                        {
                            "token": "oab%03d_%05d" % (ai, i),
                            "sample_data_token": sd_of[(st["also"]["cam"], i)],
                            "instance_token": itok,
                            "category_token": cat_token[a["category"]],
                            "attribute_tokens": [attr_token[n] for n in a.get("attrs", [])],
                            "bbox": [int(x), int(y), int(x + w), int(y + h)],
                            "mask": None,
                        }
                    )
            continue
        inst_rows.append(
            {
                "token": itok,
                "category_token": cat_token[a["category"]],
                "instance_name": "",
                "nbr_annotations": len(present),
                "first_annotation_token": ann_token(ai, present[0]),
                "last_annotation_token": ann_token(ai, present[-1]),
            }
        )
        for k, i in enumerate(present):
            st = a["states"][i]
            x, y, z, yaw = st["pose"]
            ann_rows.append(
                {
                    "token": ann_token(ai, i),
                    "sample_token": sample_token(i),
                    "instance_token": itok,
                    "attribute_tokens": [attr_token[n] for n in a.get("attrs", [])],
                    "visibility_token": vis_token.get(st.get("vis") or "full", "") if vis_mode != "none" else "",
                    "translation": [float(x), float(y), float(z)],
                    "size": [float(v) for v in a["size"]],
                    "rotation": _ann_quat(yaw, st),
                    "num_lidar_pts": int(st.get("npts", 0)),
                    "num_radar_pts": 0,
                    "prev": ann_token(ai, present[k - 1]) if k > 0 else "",
                    "next": ann_token(ai, present[k + 1]) if k + 1 < len(present) else "",
                }
            )

    tables = {
        "category": _reorder(categories, order.get("category")),
        "attribute": _reorder(attributes, order.get("attribute")),
        "visibility": _reorder(visibility, order.get("visibility")),
        "sensor": _reorder(sensors, order.get("sensor")),
        "calibrated_sensor": _reorder(calibs, order.get("calibrated_sensor")),
        "log": log,
        "map": maps,
        "scene": scene,
        "sample": sample_rows,  # dataset order == time order, never shuffled
        "sample_data": _reorder(sd_rows, order.get("sample_data")),
        "ego_pose": _reorder(ego_rows, order.get("ego_pose")),
        "instance": _reorder(inst_rows, order.get("instance")),
        "sample_annotation": _reorder(ann_rows, order.get("sample_annotation")),
    }
    if dim2:
        tables["object_ann"] = _reorder(obj_ann_rows, order.get("object_ann"))
        tables["surface_ann"] = []
    for name, rows in tables.items():
        with open(os.path.join(ann_dir, name + ".json"), "w") as f:
            json.dump(rows, f)
    if storage.get("raw"):
        _write_raw_files(root, sd_rows)
    return tables


def _write_raw_files(root, sd_rows):
    """Tiny raw sensor files (the loader reads them when load_raw_data is requested)."""
    import numpy as np

    for row in sd_rows:
        path = os.path.join(root, row["filename"])
        os.makedirs(os.path.dirname(path), exist_ok=True)
        if row["fileformat"] == "jpg":
            from PIL import Image

            Image.new("RGB", (8, 6), (10, 20, 30)).save(path)
        else:
            np.arange(15, dtype=np.float32).tofile(path)
