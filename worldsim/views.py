"""Extraction of plain-value views from the repository's live objects (read-only)."""
from . import refmath as rm


def label_of(obj):
    return obj.semantic_label.label.value


def frame_of(obj):
    f = obj.frame_id
    return f if isinstance(f, str) else f.value


def is_2d(obj):
    return hasattr(obj, "roi")


def roi_of(obj):
    """(x, y, w, h) of an image object."""
    r = obj.roi
    return (int(r.offset[0]), int(r.offset[1]), int(r.size[0]), int(r.size[1]))


def score_value(r, attr):
    """Value of one of a result's matching scores, None when that score does not exist for the object type."""
    m = getattr(r, attr, None)
    return None if m is None else m.value


def pos_of(obj):
    p = obj.state.position
    return (float(p[0]), float(p[1]), float(p[2]))


def quat_of(obj):
    q = obj.state.orientation
    e = q.elements if hasattr(q, "elements") else q
    return (float(e[0]), float(e[1]), float(e[2]), float(e[3]))


def ego_pos(obj, ego_ref):
    p = pos_of(obj)
    if frame_of(obj) == "base_link":
        return p
    return rm.map_to_ego(ego_ref, p)


def map_pos(obj, ego_ref):
    p = pos_of(obj)
    if frame_of(obj) == "base_link":
        return rm.ego_to_map(ego_ref, p)
    return p


def map_quat(obj, ego_ref):
    q = quat_of(obj)
    if frame_of(obj) == "base_link":
        return rm.q_mul(rm.q_from_yaw(ego_ref[3]), q)
    return q


def filter_view(obj, ego_ref):
    import math

    if is_2d(obj):
        # image objects have no ego-relative position: only label, attributes, confidence and uuid can decide
        return {
            "label": label_of(obj),
            "name": obj.semantic_label.name,
            "attrs": list(obj.semantic_label.attributes or []),
            "conf": float(obj.semantic_score),
            "x": None,
            "y": None,
            "bev": None,
            "npts": None,
            "uuid": obj.uuid,
            "roi": list(roi_of(obj)),
            "cam": frame_of(obj),
        }
    x, y, _ = ego_pos(obj, ego_ref)
    return {
        "label": label_of(obj),
        "name": obj.semantic_label.name,
        "attrs": list(obj.semantic_label.attributes or []),
        "conf": float(obj.semantic_score),
        "x": x,
        "y": y,
        "bev": math.hypot(x, y),
        "npts": obj.pointcloud_num,
        "uuid": obj.uuid,
    }


def filter_params(kwargs):
    """Reference-model parameters from the keyword arguments of a real filter call (already normalised lists)."""
    tl = kwargs.get("target_labels")
    return {
        "target_labels": None if tl is None else [l.value for l in tl],
        "ignore_attributes": kwargs.get("ignore_attributes"),
        "max_x": kwargs.get("max_x_position_list"),
        "max_y": kwargs.get("max_y_position_list"),
        "max_dist": kwargs.get("max_distance_list"),
        "min_dist": kwargs.get("min_distance_list"),
        "min_pts": kwargs.get("min_point_numbers"),
        "conf_thr": kwargs.get("confidence_threshold_list"),
        "target_uuids": kwargs.get("target_uuids"),
    }


def _safe(f):
    try:
        return f()
    except Exception as e:  # noqa -- an unreadable field is part of the digest, not a reason to stop judging the run
        return ("unreadable", type(e).__name__)


def obj_digest(obj):
    """Value digest of a DynamicObject for mutation checks (no identity)."""
    return _safe(lambda: _obj_digest(obj))


def _obj_digest(obj):
    vis = obj.visibility
    if is_2d(obj):
        return (
            int(obj.unix_time),
            frame_of(obj),
            roi_of(obj),
            label_of(obj),
            obj.semantic_label.name,
            tuple(obj.semantic_label.attributes or []),
            float(obj.semantic_score),
            obj.uuid,
            None if vis is None else (vis if isinstance(vis, str) else vis.value),
        )
    return (
        int(obj.unix_time),
        frame_of(obj),
        tuple(round(v, 9) for v in pos_of(obj)),
        tuple(round(v, 9) for v in quat_of(obj)),
        tuple(obj.state.size),
        label_of(obj),
        obj.semantic_label.name,
        tuple(obj.semantic_label.attributes or []),
        float(obj.semantic_score),
        obj.pointcloud_num,
        obj.uuid,
        None if vis is None else (vis if isinstance(vis, str) else vis.value),
        None if obj.tracked_path is None else len(obj.tracked_path),
    )


def frame_digest(frame):
    mats = []
    for key, m in (frame.transforms.items() if frame.transforms is not None else []):
        mats.append((str(key), tuple(round(float(v), 9) for v in m.matrix.reshape(-1))))
    return (int(frame.unix_time), str(frame.frame_name), tuple(obj_digest(o) for o in frame.objects), tuple(mats))


# ------------------------------------------------------------------------------------------------------
# filter criteria as the PLAN configured them (independent of the repository's own config objects)
# ------------------------------------------------------------------------------------------------------

_ALIAS_OF = {"vehicle.car": "car", "vehicle.truck": "truck", "vehicle.bus": "bus", "vehicle.bicycle": "bicycle",
             "vehicle.motorcycle": "motorbike", "pedestrian.adult": "pedestrian"}
_MERGE = {"truck": "car", "bus": "car", "motorbike": "bicycle"}


def canonical_label(name, merge):
    base = _ALIAS_OF.get(name, name)
    return _MERGE.get(base, base) if merge else base


def _per_label(value, n):
    if value is None:
        return None
    if isinstance(value, (list, tuple)):
        return [v for v in value]
    return [value] * n


def plan_filter_params(plan_cfg, spec=None):
    """Reference-model parameters of the evaluator-level criteria (spec None) or of a per-frame critical filter spec."""
    merge = bool(plan_cfg["merge"])
    if spec is None:
        labels = [canonical_label(l, merge) for l in plan_cfg["target_labels"]]
        n = len(labels)
        rg = plan_cfg.get("range")
        out = {"target_labels": labels, "ignore_attributes": plan_cfg.get("ignore_attrs"), "max_x": None, "max_y": None, "max_dist": None,
               "min_dist": None, "min_pts": _per_label(plan_cfg.get("min_pts"), n), "conf_thr": _per_label(plan_cfg.get("conf_thr"), n),
               "target_uuids": plan_cfg.get("target_uuids")}
    else:
        labels = [canonical_label(l, merge) for l in spec["labels"]]
        n = len(labels)
        rg = spec.get("range")
        out = {"target_labels": labels, "ignore_attributes": spec.get("ignore_attrs"), "max_x": None, "max_y": None, "max_dist": None,
               "min_dist": None, "min_pts": _per_label(spec.get("min_pts"), n), "conf_thr": _per_label(spec.get("conf_thr"), n),
               "target_uuids": spec.get("target_uuids")}
    if rg is not None:
        if rg["kind"] == "xy":
            out["max_x"], out["max_y"] = _per_label(rg["max_x"], n), _per_label(rg["max_y"], n)
        else:
            out["max_dist"], out["min_dist"] = _per_label(rg["max"], n), _per_label(rg["min"], n)
    return out


def plan_policy(plan_cfg):
    """The label policy as the plan configured it ("DEFAULT" / "ALLOW_UNKNOWN" / "ALLOW_ANY")."""
    if plan_cfg.get("policy"):
        return str(plan_cfg["policy"]).upper()
    return "ALLOW_UNKNOWN" if plan_cfg.get("allow_unknown_flag") else "DEFAULT"
